"""C11 - the variant forest stays consistent and every variant is findable.

case = {"op": "c11", "args": {"variants": [attrs of every Variant object constructed], "ops": [{"c": container, "v": object,
        "key": variant_id or None, "kind": generator's intent (steering only, never read by oracle or model)}]}}
container: None = ComposeInfo.variants (class Variants), n = object n.

real():   executes the history on the real library; after EVERY add it records the outcome class and a snapshot of the real
          objects (children dicts in insertion order, parent pointers, `ci[uid]` for every object, `parent[id]` for every
          edge); on the final state every arch filter x type subset x recursive; then dumps()/loads() and the same on the
          reloaded forest (together with the add history `Variants.deserialize` performed).
model:    the same history through `PM.Forest.add/getitem/getVariants` (driver op c11_history); for the reloaded forest the
          deserialize history is replayed through the model as well.
oracle(): the property itself, evaluated on what was recorded from the real objects.
"""
import itertools, json, re
import checklib
import c11del
from checklib import Prop

ARCHES = ["x86_64", "i386", "ppc64le", "ppc64", "ppc"]      # incl. a family of names that are prefixes of each other
NEAR_ARCHES = [" ", "s390x", "srcx", "sr"]                  # arch filters no variant carries: blank, unknown, extension/prefix of 'src'
TYPES = ["variant", "optional", "addon", "layered-product"]  # the documented set (SPEC side; the generator reads the live table)
# ids: case variants of one name, values that look like other types; dash-free by the id pattern
ID_POOL = ["A", "B", "C", "Server", "Tools", "optional", "Client", "HA", "b2", "server", "a", "None", "0"]
NAMES = ["n", "Enterprise Server", " ", "n\t", "\u00dcn\u00ef c\u00f6d\u00e9", "None", "x" * 300]
BAD_IDS = ["a-b", "", "a b", "a.b", "\u00e9", "a_b", " ", "a ", " a", "\t", "a\u00a0b", "a:b", "a/b", "a@b", "a--b", "-a", "a-",
           "V\u0663", "V\uff17", "a\U0001F600", "a,b", "a=b", "a%b", "a#b", "a'b", 'a"b', "a\\b", "a[b]"]
FALSY = [None, False, 0, 0.0, "", {"$list": []}, {"$dict": []}, {"$set": []}, {"$tuple": []}]
DASH_HEADS = ["Dx", "Dy"]          # first segments of dashed top-level UIDs that the "clean" stream never uses as ids
ID_RE = re.compile(r"^[a-zA-Z0-9]+\Z")


# ------------------------------------------------------------------------------------------------ real side
def _mk_ci():
    pm = checklib.use_repo()
    from productmd.composeinfo import ComposeInfo
    ci = ComposeInfo()
    ci.release.name = "Fedora"; ci.release.short = "f"; ci.release.version = "23"; ci.release.type = "ga"
    ci.compose.id = "f-23-20160101.0"; ci.compose.type = "production"; ci.compose.date = "20160101"; ci.compose.respin = 0
    return ci


def _dec(x):
    if isinstance(x, dict):
        if "$set" in x: return set(x["$set"])
        if "$tuple" in x: return tuple(x["$tuple"])
        if "$list" in x: return list(x["$list"])
        if "$dict" in x: return dict(x["$dict"])
    return x


def _enc(x):
    if isinstance(x, (set, frozenset)):
        return sorted(x) if all(isinstance(i, str) for i in x) else {"$set": [repr(i) for i in x]}
    if isinstance(x, tuple): return {"$tuple": list(x)}
    if isinstance(x, list): return {"$list": x}
    if isinstance(x, dict): return {"$dict": sorted(x.items())}
    return x


def _view(a):
    """what the attributes of the object built from case entry `a` must read back as (the SPEC that was put in)"""
    out = {"id": a["id"], "uid": a["uid"], "name": a["name"], "type": a["type"], "arches": sorted(a["arches"])}
    for k, val in (a.get("raw") or {}).items():
        out[k] = _enc(_dec(val))
    return out


def _mk_variant(ci, a, in_place=False):
    from productmd.composeinfo import Variant
    v = Variant(ci)
    v.id = a["id"]; v.uid = a["uid"]; v.name = a["name"]; v.type = a["type"]
    if in_place:
        v.arches.update(a["arches"])          # construction style: fill the default container in place
    else:
        v.arches = set(a["arches"])
    for k, val in (a.get("raw") or {}).items():
        setattr(v, k, _dec(val))
    if a["type"] == "layered-product":
        v.release.name = "LP"; v.release.short = "lp"; v.release.version = "1"; v.release.type = "ga"
    return v


def _res(f):
    try:
        return {"ok": f()}
    except RecursionError:
        return {"err": "RuntimeError"}
    except Exception as e:  # noqa
        return {"err": type(e).__name__}


def _snap(ci, objs):
    idx = dict((id(o), i) for i, o in enumerate(objs))

    def d(container):
        return [[k, idx.get(id(v), -1)] for k, v in container.variants.items()]

    def find(o):
        r = ci[o.uid]
        return idx.get(id(r), -1)
    top = d(ci.variants)
    kids = [d(o) for o in objs]
    parent = [None if o.parent is None else idx.get(id(o.parent), -2) for o in objs]
    byuid = [_res(lambda o=o: find(o)) for o in objs]
    byuid_again = [_res(lambda o=o: find(o)) for o in objs]
    byid_bad = []
    for ci_, cont in list(enumerate(objs)):          # "from its parent by its id": top-level variants have no parent
        for k, v in cont.variants.items():
            r = _res(lambda: idx.get(id(cont[v.id]), -1))
            if r != {"ok": idx.get(id(v), -1)}:
                byid_bad.append([ci_, k, idx.get(id(v), -1), r])
    # every public read-only method between mutations: the state must be unchanged afterwards
    for kw in ({"recursive": True}, {"arch": "src", "recursive": True}, {"types": ["variant", "addon"]}):
        _res(lambda: ci.get_variants(**kw))
    for o in objs[:4]:
        _res(lambda: o.get_variants(types=["self", "optional"], recursive=True))
        _res(lambda: (len(o), list(o), repr(o), str(o)))
    reads_mutated = (top, kids, parent) != (d(ci.variants), [d(o) for o in objs], [None if o.parent is None else idx.get(id(o.parent), -2) for o in objs])
    attrs = [{"id": _enc(o.id), "uid": _enc(o.uid), "name": _enc(o.name), "type": _enc(o.type), "arches": _enc(o.arches)} for o in objs]
    return {"top": top, "kids": kids, "parent": parent, "byuid": byuid, "byid_bad": byid_bad, "attrs": attrs,
            "lookup_not_repeatable": byuid != byuid_again, "reads_mutated": reads_mutated}


def _queries(rng_key, n_objs, placed, with_self=True):
    """all arch filters x all type subsets x recursive on the top-level container; a sample on variants (incl. 'self')"""
    qs = []
    archs = [None, ""] + ARCHES + ["src"]
    import random
    rnd = random.Random(rng_key)
    subsets = []
    for r in range(len(TYPES) + 1):
        for comb in itertools.combinations(TYPES, r):
            subsets.append(list(comb))
    for a in archs:
        for t in subsets:
            for rec in (False, True):
                qs.append({"q": "gv", "c": None, "arch": a, "types": t, "rec": rec})
    # arch filters no variant has (blank, unknown, extension / proper prefix of the literal 'src'); odd type lists
    for a in NEAR_ARCHES:
        for t in [[]] + rnd.sample(subsets, 2):
            qs.append({"q": "gv", "c": None, "arch": a, "types": t, "rec": rnd.random() < 0.5})
    for t in (["bogus"], [""], ["variant", "variant"], ["selfx", "addon"], ["sel"], ["Variant"], ["optional", "bogus"]):
        qs.append({"q": "gv", "c": None, "arch": rnd.choice([None, "x86_64"]), "types": t, "rec": rnd.random() < 0.5})
    if with_self:
        qs.append({"q": "gv", "c": None, "arch": None, "types": ["self"], "rec": False})
        qs.append({"q": "gv", "c": None, "arch": None, "types": ["self", "variant"], "rec": True})
    for c in placed[:3]:
        for _ in range(10):
            t = rnd.choice(subsets)
            if with_self and rnd.random() < 0.4:
                t = t + ["self"]
                rnd.shuffle(t)
            qs.append({"q": "gv", "c": c, "arch": rnd.choice(archs), "types": t, "rec": rnd.random() < 0.6})
    for q in rnd.sample(qs, min(12, len(qs))):
        q["twice"] = True
    return qs


def _run_query(ci, objs, q):
    idx = dict((id(o), i) for i, o in enumerate(objs))
    cont = ci if q["c"] is None else objs[q["c"]]
    if q["q"] == "gv":
        def call():
            types = list(q["types"]) if q["types"] else None
            r1 = cont.get_variants(arch=q["arch"], types=types, recursive=q["rec"])
            if q.get("twice"):
                # the same read-only call twice, after mutating the previous RESULT and with the caller's list checked
                first = list(r1)
                del r1[:]
                r2 = cont.get_variants(arch=q["arch"], types=types, recursive=q["rec"])
                if [id(x) for x in r2] != [id(x) for x in first] or (types is not None and types != q["types"]):
                    raise AssertionError("not repeatable")
                r1 = r2
            return [idx.get(id(v), -1) for v in r1]
        return _res(call)
    return _res(lambda: idx.get(id(cont[q["name"]]), -1))


def _placed(snap):
    seen, out = set(), []
    stack = [v for _, v in snap["top"]]
    while stack:
        v = stack.pop(0)
        if v in seen or v < 0:
            continue
        seen.add(v); out.append(v)
        stack.extend(w for _, w in snap["kids"][v])
    return out


def _reload_history(ci2):
    """objects of the reloaded forest in the order Variants.deserialize / Variant.deserialize add them (children, sorted by id,
    are added to a variant before the variant itself is added to its container)"""
    objs, ops = [], []

    def rec(cont, cidx):
        pass
    order = []

    def visit(v):
        me = len(objs); objs.append(v)
        return me
    # deserialize order: top-level ids sorted; Variant.deserialize: for child uid in sorted ids: construct, deserialize (recursively), self.add(child)
    def des(v):
        me = visit(v)
        for cid in v.variants:                  # dict order = the order deserialize added them
            ch = v.variants[cid]
            chi = des(ch)
            ops.append({"c": me, "v": chi, "key": None})
        return me
    for tid in ci2.variants.variants:
        t = ci2.variants.variants[tid]
        ti = des(t)
        ops.append({"c": None, "v": ti, "key": None})
    return objs, ops


def execute(case):
    a = case["args"]
    ci = _mk_ci()
    objs = [_mk_variant(ci, x, in_place=(i % 2 == 1)) for i, x in enumerate(a["variants"])]
    twin = None
    if a.get("twin"):
        # two forests built interleaved in one process from the same history must stay identical
        ci_b = _mk_ci()
        twin = (ci_b, [_mk_variant(ci_b, x, in_place=(i % 2 == 0)) for i, x in enumerate(a["variants"])])

    def do_add(ci_, objs_, op):
        cont = ci_.variants if op["c"] is None else objs_[op["c"]]
        v = objs_[op["v"]]
        try:
            if op.get("key") is not None and op["c"] is None:
                cont.add(v, op["key"])
            else:
                cont.add(v)
            return "ok"
        except RecursionError:
            return "RuntimeError"
        except Exception as e:  # noqa
            return type(e).__name__
    steps = []
    for op in a["ops"]:
        out = do_add(ci, objs, op)
        st = _snap(ci, objs)
        st["out"] = out
        if twin is not None:
            out_b = do_add(twin[0], twin[1], op)
            sb = _snap(twin[0], twin[1])
            st["twin_differs"] = (out_b, sb["top"], sb["kids"], sb["parent"]) != (out, st["top"], st["kids"], st["parent"])
        if a.get("dump_each"):
            # dumps at every point of a history: whether it succeeds or not, it must not change the forest
            _res(lambda: ci.dumps())
            sd = _snap(ci, objs)
            st["dump_mutated"] = any(sd[k] != st[k] for k in ("top", "kids", "parent", "attrs"))
        steps.append(st)
    final = steps[-1] if steps else _snap(ci, objs)
    placed = _placed(final)
    qs = _queries(checklib.key_of(a["ops"]), len(objs), placed, a.get("self_queries", True))
    qres = [_run_query(ci, objs, q) for q in qs]
    # write/read cycle
    reload = None
    if a.get("reload", True):
        from productmd.composeinfo import ComposeInfo
        try:
            text = ci.dumps()
        except RecursionError:
            reload = {"dump_err": "RuntimeError"}
        except Exception as e:  # noqa
            reload = {"dump_err": type(e).__name__}
        else:
            try:
                ci2 = ComposeInfo(); ci2.loads(text)
            except Exception as e:  # noqa
                reload = {"load_err": type(e).__name__}
            else:
                objs2, ops2 = _reload_history(ci2)
                snap_loaded = _snap(ci2, objs2)
                # load -> modify: a valid child and a duplicate id on the LOADED forest (then the invariants, the queries and a second cycle)
                extra, expect = [], []
                spec2 = [dict(x) for x in snap_loaded["attrs"]]
                tops = [v for _, v in snap_loaded["top"]]
                if tops and a.get("post_reload", True):
                    t = tops[0]
                    if "-" not in spec2[t]["uid"]:
                        spec2.append({"id": "Zz9", "uid": spec2[t]["uid"] + "-Zz9", "name": "after load", "type": "addon", "arches": spec2[t]["arches"][:1]})
                        extra.append({"c": t, "v": len(spec2) - 1, "key": None}); expect.append(True)
                    spec2.append({"id": spec2[t]["id"], "uid": spec2[t]["uid"], "name": "dup", "type": "variant", "arches": spec2[t]["arches"]})
                    extra.append({"c": None, "v": len(spec2) - 1, "key": None}); expect.append(False)
                    for x in spec2[len(objs2):]:
                        objs2.append(_mk_variant(ci2, x))
                outs2 = ["ok"] * len(ops2) + [do_add(ci2, objs2, op) for op in extra]
                snap2 = _snap(ci2, objs2)
                qs2 = _queries(checklib.key_of(a["ops"]) + "r", len(objs2), _placed(snap2), a.get("self_queries", True))
                reload = {"variants": spec2, "ops": ops2 + extra, "outs": outs2, "expect_extra": expect, "n_loaded": len(ops2),
                          "snap_loaded": snap_loaded, "snap": snap2, "queries": qs2,
                          "qres": [_run_query(ci2, objs2, q) for q in qs2]}
                # second write/read cycle of the modified forest
                try:
                    ci3 = ComposeInfo(); ci3.loads(ci2.dumps())
                    o3, _ = _reload_history(ci3)
                    reload["second_cycle"] = {"snap": _snap(ci3, o3)}
                except Exception as e:  # noqa
                    reload["second_cycle"] = {"err": type(e).__name__}
    return {"steps": steps, "queries": qs, "qres": qres, "reload": reload}


# ------------------------------------------------------------------------------------------------ the property (oracle)
def _edges(snap):
    out = [(None, k, v) for k, v in snap["top"]]
    for p, l in enumerate(snap["kids"]):
        out.extend((p, k, v) for k, v in l)
    return out


def _maps(snap):
    return json.dumps([snap["top"], snap["kids"]])


def _ancestors_struct(snap, c):
    """ancestors of container c (a variant) along the children structure, c included"""
    par = {}
    for p, k, v in _edges(snap):
        par.setdefault(v, []).append(p)
    seen, stack = set(), [c]
    while stack:
        x = stack.pop()
        if x is None or x in seen:
            continue
        seen.add(x)
        stack.extend(par.get(x, []))
    return seen


def _parent_cycle(snap, c):
    """do the parent POINTERS, followed from container c, run into a cycle?"""
    seen = set()
    while c is not None and c >= 0:
        if c in seen:
            return True
        seen.add(c)
        c = snap["parent"][c]
    return False


def _top_aligned(a):
    return a["uid"].replace("-", "") == a["id"]


def check_gv(attrs, snap, q, r, fail):
    """get_variants: at most once, ordered by UID, requested arch ('src' matches all), one of the requested types, no filter = everything"""
    c, arch, types, rec = q["c"], q["arch"], q["types"], q["rec"]
    facts = {"query": q}
    if "err" in r:
        return fail("gv-error", r, "get_variants returns a list", dict(facts, types_has_self="self" in types, container_is_top=c is None))
    res = r["ok"]
    if any(i < 0 for i in res):
        return fail("gv-foreign-object", res, "get_variants returns variants of the forest", dict(facts, types_has_self="self" in types, container_is_top=c is None))
    uids = [attrs[i]["uid"] for i in res]
    if uids != sorted(uids):
        return fail("gv-unsorted", uids, "ordered by UID", facts)
    if len(set(res)) != len(res):
        dup = [i for i in set(res) if res.count(i) > 1]
        positions = dict((i, [[p, k] for p, k, v in _edges(snap) if v == i]) for i in dup)
        allpos = {}
        for p, k, v in _edges(snap):
            allpos.setdefault(v, []).append([p, k])
        same = any(len(set(q for q, _ in p)) > 1 and None not in [q for q, _ in p] and len(set(attrs[q]["uid"] for q, _ in p)) == 1
                   for p in allpos.values())
        return fail("gv-duplicate", uids, "each variant at most once",
                    dict(facts, positions=positions, placed_twice=any(len(p) > 1 for p in allpos.values()), same_uid_containers_in_forest=same))
    real_types = [t for t in types if t != "self"]
    for i in res:
        is_self = ("self" in types and i == c)
        if types and not is_self and attrs[i]["type"] not in real_types:
            return fail("gv-type", {"uid": attrs[i]["uid"], "type": attrs[i]["type"]}, "one of the requested types %s" % types, facts)
        if arch and arch != "src" and arch not in attrs[i]["arches"]:
            return fail("gv-arch", {"uid": attrs[i]["uid"], "arches": attrs[i]["arches"]}, "has the requested arch %s" % arch,
                        dict(facts, is_receiver_via_self=is_self))
    if (not arch or arch == "src") and not real_types:
        # no filter ('src' matches every variant): every variant of the level / of the whole (sub)forest
        lvl = snap["top"] if c is None else snap["kids"][c]
        want = set()
        stack = [v for _, v in lvl]
        while stack:
            v = stack.pop()
            if v in want:
                continue
            want.add(v)
            if rec:
                stack.extend(w for _, w in snap["kids"][v])
        got = set(res) - ({c} if "self" in types else set())
        if types and not real_types:
            want = set()                      # types == ["self"] only: no variant type requested
        if got != want:
            return fail("gv-incomplete", sorted(attrs[i]["uid"] for i in got), "every variant of the level/forest: %s" % sorted(attrs[i]["uid"] for i in want), facts)
    return None


def check_state(attrs, snap, hist, fail, check_find=True):
    """the invariants of the property on one snapshot of the real objects"""
    edges = _edges(snap)
    pos = {}
    for p, k, v in edges:
        pos.setdefault(v, []).append([p, k])
    dashed_top = set(v for p, k, v in edges if p is None and "-" in attrs[v]["uid"])
    for p, k, v in edges:
        a = attrs[v]
        conts = [q for q, _ in pos[v]] + ([snap["parent"][v]] if snap["parent"][v] is not None and snap["parent"][v] >= 0 else [])
        facts = {"variant": a["uid"], "container": None if p is None else attrs[p]["uid"], "key": k, "placed_twice": len(pos[v]) > 1,
                 # F33: the objects that hold v / that v points to are different objects with one and the same UID
                 "containers_same_uid": len(set(conts)) > 1 and None not in conts and len(set(attrs[q]["uid"] for q in conts)) == 1}
        if p is not None:
            if a["uid"] != "%s-%s" % (attrs[p]["uid"], a["id"]):
                return fail("inv-uid-align", a["uid"], "%s-%s" % (attrs[p]["uid"], a["id"]), facts)
            if not set(a["arches"]) <= set(attrs[p]["arches"]):
                return fail("inv-arches", a["arches"], "subset of %s" % attrs[p]["arches"], facts)
            if k != a["id"]:
                return fail("inv-key", k, a["id"], facts)
        else:
            if not _top_aligned(a):
                return fail("inv-uid-align", a["uid"], "top-level: UID without dashes equals id %s" % a["id"], facts)
            if k not in (a["id"], a["uid"]):
                return fail("inv-key", k, "id or UID of the variant", dict(facts, key_given=True))
        if snap["parent"][v] != p:
            return fail("inv-parent-mirror", {"parent": snap["parent"][v]}, {"parent": p}, facts)
    for v, ps in pos.items():
        if len(ps) > 1:
            cs = [p for p, _ in ps]
            return fail("inv-placed-twice", ps, "each variant in one place",
                        {"variant": attrs[v]["uid"], "custom_key": any(p is None and k != attrs[v]["id"] for p, k in ps),
                         "containers_same_uid": len(set(cs)) > 1 and None not in cs and len(set(attrs[q]["uid"] for q in cs)) == 1})
    by_uid = {}
    for v in _placed(snap):                     # the forest = what hangs below the top-level container
        by_uid.setdefault(attrs[v]["uid"], []).append(v)
    for u, vs in by_uid.items():
        if len(vs) > 1:
            return fail("inv-dup-uid", u, "UIDs are unique", {"uid": u, "involves_dashed_top": any(v in dashed_top for v in vs)})
    if snap["byid_bad"]:
        p, k, v, r = snap["byid_bad"][0]
        return fail("not-findable-by-id", r, {"ok": v}, {"variant": attrs[v]["uid"], "key": k, "container_is_top": p is None,
                                                         "key_is_uid": k == attrs[v]["uid"] and k != attrs[v]["id"]})
    if check_find:
        # descendants of a dashed top-level variant are outside the quantifier ("dashed top-level UIDs only on childless variants")
        under_dashed, stack = set(), [w for t in dashed_top for _, w in snap["kids"][t]]
        while stack:
            x = stack.pop()
            if x not in under_dashed:
                under_dashed.add(x); stack.extend(w for _, w in snap["kids"][x])
        reachable = set(_placed(snap))
        for v in sorted(pos):
            if v in under_dashed or v not in reachable:
                continue
            if snap["byuid"][v] != {"ok": v}:
                got = snap["byuid"][v]
                # facts about the cause: shadowing sibling (a child of an ancestor whose UID equals the remaining path)
                u = attrs[v]["uid"]
                shadow = False
                if "ok" in got and got["ok"] >= 0 and attrs[got["ok"]]["uid"] != u:
                    # F20: some ancestor `a` has a child whose UID equals the path of v *relative to a*
                    for anc in _ancestors_struct(snap, v):
                        au = attrs[anc]["uid"]
                        if anc != v and u.startswith(au + "-"):
                            rest = u[len(au) + 1:]
                            if "-" in rest and any(attrs[w]["uid"] == rest and w == got["ok"] for _, w in snap["kids"][anc]):
                                shadow = True
                return fail("not-findable-by-uid", got if "err" in got else {"ok": attrs[got["ok"]]["uid"] if got["ok"] >= 0 else got["ok"]},
                            "ci[%r] is that variant" % u,
                            {"variant": u, "shadowed_by_relative_path": shadow, "dup_uid": len(by_uid.get(u, [])) > 1,
                             "top_key_not_id_or_uid": any(p is None and k not in (attrs[w]["id"], attrs[w]["uid"]) for p, k, w in edges)})
    return None


def oracle_run(case, out):
    a = case["args"]
    attrs = a["variants"]
    fails = []

    def fail(kind, observed, required, facts, step=None):
        fails.append({"kind": kind, "observed": {"got": observed, "facts": facts, "step": step}, "required": required})
        return True
    hist = {}
    prev = {"top": [], "kids": [[] for _ in attrs], "parent": [None] * len(attrs)}
    for t, (op, st) in enumerate(zip(a["ops"], out["steps"])):
        c, v, key = op["c"], op["v"], op.get("key") if op["c"] is None else None
        av = attrs[v]
        def sfail(kind, observed, required, facts, t=t):
            return fail(kind, observed, required, facts, step=t)
        if st["attrs"] != [_view(x) for x in attrs]:
            sfail("attrs-changed", st["attrs"], [_view(x) for x in attrs], {})
        for flag, kind_, req in (("reads_mutated", "read-mutated-state", "read-only calls (__getitem__, get_variants, len, iter) leave the forest unchanged"),
                                 ("lookup_not_repeatable", "lookup-not-repeatable", "the same lookup twice gives the same variant"),
                                 ("twin_differs", "twin-forests-differ", "two forests built interleaved from one history are identical"),
                                 ("dump_mutated", "dumps-mutated-state", "dumps() leaves the forest unchanged")):
            if st.get(flag):
                sfail(kind_, flag, req, {})
        k = key or av["id"]
        lvl = prev["top"] if c is None else prev["kids"][c]
        pos_before = [[p, kk] for p, kk, w in _edges(prev) if w == v]
        existing = dict(lvl).get(k)
        causes = []
        if av.get("raw"):
            # a field holds a falsy value of another type: not a variant the forest may contain
            causes.append("bad-field-type")
            av = dict(_view(av)); av["uid"] = str(av["uid"]); av["id"] = str(av["id"])
            av["arches"] = av["arches"] if isinstance(av["arches"], list) else []
            av["raw"] = True
        if existing is not None and existing != v:
            causes.append("duplicate-id")
        if c is not None and not set(av["arches"]) <= set(attrs[c]["arches"]):
            causes.append("foreign-arch")
        if (c is not None and av["uid"] != "%s-%s" % (attrs[c]["uid"], av["id"])) or (c is None and not _top_aligned(av)):
            causes.append("misaligned-uid")
        if c is not None and v in _ancestors_struct(prev, c):
            causes.append("own-ancestor")
        if not av.get("raw") and not ID_RE.match(av["id"]):
            causes.append("bad-id")
        if not av["arches"] or av["type"] not in TYPES or not av["name"]:
            causes.append("bad-field")
        facts = {"causes": causes, "container": None if c is None else attrs[c]["uid"], "variant": av["uid"], "key": key, "variant_id": av["id"],
                 "variant_parent_set_before": prev["parent"][v] is not None, "variant_placed_before": bool(pos_before),
                 "placed_elsewhere_before": [q for q, kk in pos_before if q != c]}
        accepted = st["out"] == "ok"
        if not accepted and _maps(st) != _maps(prev):
            sfail("refused-changed", {"top": st["top"], "kids": st["kids"]}, {"top": prev["top"], "kids": prev["kids"]}, facts)
        if not accepted and st["parent"] != prev["parent"]:
            # F13 (fixed): a refused add must not leave the variant pointing at the container
            sfail("refused-changed-parent", {"parent": st["parent"]}, {"parent": prev["parent"]}, facts)
        if accepted and causes:
            sfail("accepted-invalid", "add accepted", "refused (%s)" % ", ".join(causes), facts)
        if accepted:
            # frame: exactly the new edge appears (or nothing, when the same object already sits under that key)
            exp = json.loads(_maps(prev))
            tgt = exp[0] if c is None else exp[1][c]
            if existing is None:
                tgt.append([k, v])
            if json.dumps(exp) != _maps(st):
                sfail("accepted-frame", {"top": st["top"], "kids": st["kids"]}, {"top": exp[0], "kids": exp[1]}, facts)
        if not accepted and not causes and not (pos_before and [c, k] not in pos_before):
            sfail("refused-valid", st["out"], "a valid add is accepted", facts)
        check_state(attrs, st, hist, sfail)
        prev = st
    final = out["steps"][-1] if out["steps"] else prev
    if out["steps"]:
        for q, r in zip(out["queries"], out["qres"]):
            check_gv(attrs, final, q, r, lambda k_, o, rq, f: fail(k_, o, rq, dict(f,
                                                               custom_key_in_history=any(o_["c"] is None and o_.get("key") not in (None, "", attrs[o_["v"]]["id"]) for o_ in a["ops"])), step="final"))
    # write/read cycle
    rl = out.get("reload")
    if rl is not None and out["steps"]:
        # the forest "satisfies the invariants" when no step- or state-level check failed (query-level findings such as F28 do not count)
        clean_before = not any(not f["kind"].startswith("gv-") for f in fails)
        if "dump_err" in rl or "load_err" in rl:
            if clean_before:
                top_ids = [attrs[v]["id"] for _, v in final["top"]]
                fail("reload-failed", rl, "a forest satisfying the invariants can be written and read back",
                     {"invariants_held_before": clean_before, "top_ids_collide": len(set(top_ids)) != len(top_ids)}, step="reload")
        else:
            a2 = rl["variants"]
            h2 = {}
            check_state(a2, rl["snap"], h2, lambda k_, o, rq, f: fail("reload:" + k_, o, rq, dict(f, invariants_held_before=clean_before), step="reload"))
            for q, r in zip(rl["queries"], rl["qres"]):
                check_gv(a2, rl["snap"], q, r, lambda k_, o, rq, f: fail("reload:" + k_, o, rq, dict(f, invariants_held_before=clean_before), step="reload"))

            def shape(at, snap):
                reach = set(_placed(snap))         # the forest = what hangs below the top-level container
                return sorted(set(json.dumps([None if p is None else at[p]["uid"], at[v]["id"], at[v]["uid"], at[v]["name"], at[v]["type"], at[v]["arches"]])
                                  for p, k, v in _edges(snap) if p is None or p in reach))
            s1 = shape(attrs, final)
            s2 = shape(a2, rl["snap_loaded"])
            if clean_before and s1 != s2:
                fail("reload-shape", s2, s1, {"invariants_held_before": clean_before}, step="reload")
            # load -> modify: the valid child is accepted, the duplicate refused; then a second cycle returns the modified forest
            for op, o_, want in zip(rl["ops"][rl["n_loaded"]:], rl["outs"][rl["n_loaded"]:], rl["expect_extra"]):
                if want and o_ != "ok":
                    fail("reload:refused-valid", o_, "a valid add on the loaded forest is accepted", {"op": op, "variant": a2[op["v"]]["uid"]}, step="reload")
                if not want and o_ == "ok":
                    fail("reload:accepted-invalid", "add accepted", "refused (duplicate-id)", {"op": op, "causes": ["duplicate-id"], "variant": a2[op["v"]]["uid"]}, step="reload")
            sc = rl.get("second_cycle")
            if sc is not None and clean_before and not any(f["kind"].startswith("reload:") for f in fails):
                if "err" in sc:
                    fail("reload2-failed", sc, "load -> add -> dumps -> loads works", {}, step="reload")
                elif shape(sc["snap"]["attrs"], sc["snap"]) != shape(a2, rl["snap"]):
                    fail("reload2-shape", shape(sc["snap"]["attrs"], sc["snap"]), shape(a2, rl["snap"]), {}, step="reload")
    return fails


# what the known-finding predicates recognise (kept in step with known_findings.json; used only to ORDER the failures of one
# case so that a failure nobody has explained is reported before one that matches a listed finding)
def _explained(f):
    k, facts = f["kind"], f["observed"]["facts"]
    k = k[7:] if k.startswith("reload:") else k
    if k in ("inv-parent-mirror", "inv-placed-twice") and facts.get("containers_same_uid"): return True           # F33
    if k == "inv-placed-twice" and facts.get("custom_key"): return True                                         # F29
    if k == "gv-duplicate" and facts.get("placed_twice") and (facts.get("custom_key_in_history") or facts.get("same_uid_containers_in_forest")): return True
    if k == "inv-dup-uid" and facts.get("involves_dashed_top"): return True                                     # F14
    if k == "not-findable-by-uid" and (facts.get("shadowed_by_relative_path") or facts.get("dup_uid") or facts.get("top_key_not_id_or_uid")): return True
    if k == "inv-key" and facts.get("key_given"): return True
    if k == "gv-arch" and facts.get("is_receiver_via_self"): return True                                        # F28
    if k == "gv-error" and facts.get("types_has_self") and facts.get("container_is_top"): return True
    if k == "reload-failed" and facts.get("top_ids_collide"): return True                                       # F35
    if k == "accepted-invalid" and facts.get("causes") == ["bad-id"] and str(facts.get("variant_id", "")).endswith("\n") \
            and ID_RE.match(str(facts.get("variant_id"))[:-1] or "-"): return True                                # F15
    return False


# ------------------------------------------------------------------------------------------------ generator
class Gen(object):
    def __init__(self, rng, tier, nasty, untyped=False):
        self.rng, self.tier, self.nasty, self.untyped = rng, tier, nasty, untyped
        checklib.use_repo()
        from productmd.composeinfo import VARIANT_TYPES as live
        # valid types come from the LIVE table (every entry round-robin, the last one included); the oracle judges them by the
        # documented set TYPES, so a table that gained or lost an entry shows.  Near misses: extension and proper prefix of
        # every live entry, other spellings, the pseudo-type.
        self.live_types = list(live)
        self.near_types = sorted(set([t + "x" for t in live] + [t[:-1] for t in live] + [t.upper() for t in live] +
                                     ["self", "Variant", "", "layered", "layered-product ", " addon", "bogus"]) - set(live) - set(TYPES))
        self.variants, self.ops = [], []
        self.kids = {None: {}}       # intended children: container -> {key: obj}
        self.par = {}                # intended position of placed objects: obj -> container
        self.pending = []            # constructed, valid, not yet placed top-level candidates (may already have children)
        self.refused = []
        self.n = 0
        self.tyi = rng.randrange(len(TYPES))

    def new(self, id_, uid, arches, typ=None, name=None, raw=None):
        if typ is None:
            typ = self.live_types[self.tyi % len(self.live_types)]; self.tyi += 1
        if name is None:
            name = NAMES[0] if self.rng.random() < 0.5 else self.rng.choice(NAMES)
        self.variants.append({"id": id_, "uid": uid, "name": name, "type": typ, "arches": sorted(arches)})
        if raw:
            self.variants[-1]["raw"] = raw
        i = len(self.variants) - 1
        self.kids[i] = {}
        return i

    def depth(self, c):
        d = 0
        while c is not None:
            d += 1
            c = self.par.get(c, None)
        return d

    def uid_of(self, c, id_):
        return id_ if c is None else "%s-%s" % (self.variants[c]["uid"], id_)

    def arches_of(self, c):
        return ARCHES if c is None else self.variants[c]["arches"]

    def fresh_id(self, c):
        r = self.rng
        used = set(self.kids[c])
        cands = [i for i in ID_POOL if i not in used]
        if not self.nasty and c is not None:
            # the clean stream keeps away from the lookup-shadowing finding: no id equal to an ancestor's id
            anc, x = set(), c
            while x is not None:
                anc.add(self.variants[x]["id"]); x = self.par.get(x)
            cands = [i for i in cands if i not in anc]
        if cands and r.random() < 0.85:
            return r.choice(cands)
        self.n += 1
        if r.random() < 0.06:
            return "L" * 300 + "%d" % self.n         # a very long (legal) id
        return "V%d" % self.n

    def containers(self, want_variant=False):
        out = [] if want_variant else [None]
        for v in self.par:
            if self.depth(v) < 3 and (self.nasty or "-" not in self.variants[v]["uid"] or self.par[v] is not None):
                out.append(v)
        for v in self.pending:
            if not want_variant or True:
                out.append(v)
        return out

    def sub_arches(self, c):
        pa = self.arches_of(c)
        if not pa:
            return []
        return self.rng.sample(pa, self.rng.randint(1, len(pa)))

    def emit(self, c, v, kind, key=None, expect_ok=False):
        self.ops.append({"c": c, "v": v, "key": key, "kind": kind})
        if expect_ok:
            k = key or self.variants[v]["id"]
            if k not in self.kids[c] and v not in self.par:
                self.kids[c][k] = v
                if c is None or c in self.par or c in self.pending:
                    self.par[v] = c
            if v in self.pending:
                self.pending.remove(v)
        elif v not in self.par:
            self.refused.append(v)

    def step(self):
        r = self.rng
        kinds = ["valid"] * 7 + ["dashtop", "keyed", "bottomup", "dupid", "foreign", "misuid", "badid", "badfield", "fresh-wrongparent"]
        if self.nasty:
            kinds += ["ancestor", "placed", "placed-top", "readd", "retry", "dashcollide", "sameid", "junkkey", "dashparent", "twin", "nlid", "normkey"] * 1
        if self.untyped:
            kinds += ["falsy"] * 4
        kind = r.choice(kinds)
        placed_vars = list(self.par)
        if kind == "valid":
            c = r.choice(self.containers())
            if c is None and self.pending and r.random() < 0.6:
                v = r.choice(self.pending)
                if self.variants[v]["id"] not in self.kids[None]:
                    return self.emit(None, v, "valid-pending", expect_ok=True)
            if len(self.par) >= 8:
                return
            id_ = self.fresh_id(c)
            v = self.new(id_, self.uid_of(c, id_), self.sub_arches(c))
            return self.emit(c, v, kind, expect_ok=True)
        if kind == "bottomup":
            # a subtree built before its root is placed
            id_ = self.fresh_id(None)
            v = self.new(id_, id_, self.sub_arches(None))
            self.pending.append(v)
            cid = self.fresh_id(v)
            w = self.new(cid, self.uid_of(v, cid), self.sub_arches(v))
            return self.emit(v, w, kind, expect_ok=True)
        if kind == "dashtop":
            head = r.choice(DASH_HEADS if not self.nasty else DASH_HEADS + ID_POOL[:5])
            tail = r.choice(["optional", "Tools", "B", "x1"])
            uid, id_ = "%s-%s" % (head, tail), head + tail
            if id_ in self.kids[None] or uid in self.kids[None]:
                return
            v = self.new(id_, uid, self.sub_arches(None), typ=r.choice(["optional", "variant", "addon"]))
            key = r.choice([None, None, uid, id_])
            return self.emit(None, v, kind, key=key, expect_ok=True)
        if kind == "keyed":
            id_ = self.fresh_id(None)
            v = self.new(id_, id_, self.sub_arches(None))
            return self.emit(None, v, kind, key=r.choice([id_, ""]), expect_ok=True)
        if kind == "dupid":
            cs = [c for c in self.containers() if self.kids[c]]
            if not cs:
                return
            c = r.choice(cs)
            k = r.choice(sorted(self.kids[c]))
            old = self.variants[self.kids[c][k]]
            v = self.new(old["id"], self.uid_of(c, old["id"]) if c is not None else old["uid"], self.sub_arches(c))
            return self.emit(c, v, kind, key=(k if (c is None and k != old["id"]) else None))
        if kind == "foreign":
            cs = [c for c in self.containers(True) if len(self.variants[c]["arches"]) < len(ARCHES)]
            if not cs:
                return
            c = r.choice(cs)
            id_ = self.fresh_id(c)
            extra = r.choice([x for x in ARCHES if x not in self.variants[c]["arches"]])
            ar = set(self.sub_arches(c)) | {extra}
            if r.random() < 0.3:
                ar = {extra}
            v = self.new(id_, self.uid_of(c, id_), ar)
            return self.emit(c, v, kind)
        if kind == "misuid":
            c = r.choice(self.containers())
            id_ = self.fresh_id(c)
            if c is None:
                uid = r.choice([id_ + "x", "Zzz-" + id_, id_[:-1] or "q", id_.lower() if id_.lower() != id_ else id_.upper()])
            else:
                pu = self.variants[c]["uid"]
                uid = r.choice(["Zzz-" + id_, id_, pu + id_, pu + "-" + id_ + "x", pu + "--" + id_, pu.lower() + "-" + id_ if pu.lower() != pu else "x" + pu + "-" + id_])
            v = self.new(id_, uid, self.sub_arches(c))
            return self.emit(c, v, kind)
        if kind == "fresh-wrongparent":
            # aligned with (and valid under) another parent than the one it is added to
            cs = self.containers(True)
            if len(cs) < 2:
                return
            c, other = r.sample(cs, 2)
            id_ = self.fresh_id(c)
            v = self.new(id_, self.uid_of(other, id_), self.sub_arches(other))
            return self.emit(c, v, kind)
        if kind == "badid":
            c = r.choice(self.containers())
            id_ = r.choice(BAD_IDS)
            v = self.new(id_, self.uid_of(c, id_), self.sub_arches(c))
            return self.emit(c, v, kind)
        if kind == "badfield":
            c = r.choice(self.containers())
            id_ = self.fresh_id(c)
            which = r.randrange(3)
            v = self.new(id_, self.uid_of(c, id_), [] if which == 0 else self.sub_arches(c),
                         typ=r.choice(self.near_types) if which == 1 else None, name="" if which == 2 else "n")
            return self.emit(c, v, kind)
        if kind == "falsy":
            # a falsy value of another type in one field (oracle-only cases: the model's attributes are typed strings)
            c = r.choice(self.containers())
            id_ = self.fresh_id(c)
            fld = r.choice(["id", "uid", "name", "type", "arches"])
            val = r.choice([x for x in FALSY if not (fld != "arches" and x == "")] if fld != "arches" else FALSY)
            v = self.new(id_, self.uid_of(c, id_), self.sub_arches(c), raw={fld: val})
            return self.emit(c, v, kind)
        if kind == "nlid":
            # F15: `$` of the id pattern also matches before a final line feed
            c = r.choice(self.containers())
            id_ = self.fresh_id(c) + "\n"
            v = self.new(id_, self.uid_of(c, id_), self.sub_arches(c))
            return self.emit(c, v, kind, expect_ok=True)
        if kind == "normkey":
            # two top-level keys that normalise to one id: 'A-B' (dashed UID, filed under its UID) next to id 'AB' (F35)
            head, tail = r.choice(["Nk", "Nm"]), r.choice(["x", "optional"])
            if head + tail in self.kids[None] or head + "-" + tail in self.kids[None]:
                return
            t1 = self.new(head + tail, head + "-" + tail, self.sub_arches(None), typ=r.choice(["optional", "variant"]))
            t2 = self.new(head + tail, head + tail, self.sub_arches(None))
            order = [(t1, head + "-" + tail), (t2, None)]
            if r.random() < 0.5:
                order.reverse()
            for t, k in order:
                self.emit(None, t, kind, key=k, expect_ok=True)
            return
        # ---- the nasty stream: re-use of objects, collisions (known findings live here)
        if kind == "ancestor":
            cs = [c for c in placed_vars]
            if not cs:
                return
            c = r.choice(cs)
            anc, x = [], c
            while x is not None:
                anc.append(x); x = self.par.get(x)
            return self.emit(c, r.choice(anc), kind)
        if kind in ("placed", "placed-top"):
            if not placed_vars:
                return
            v = r.choice(placed_vars)
            c = None if kind == "placed-top" else r.choice(self.containers())
            return self.emit(c, v, kind)
        if kind == "readd":
            if not placed_vars:
                return
            v = r.choice(placed_vars)
            c = self.par[v]
            key = None
            if c is None:
                key = [k for k, w in self.kids[None].items() if w == v][0]
            return self.emit(c, v, kind, key=key)
        if kind == "retry":
            if not self.refused:
                return
            v = r.choice(self.refused)
            return self.emit(r.choice(self.containers()), v, kind)
        if kind == "dashcollide":
            # top-level "X-Y" next to X -> Y (F14), in either order
            tops = [v for v in placed_vars if self.par[v] is None and "-" not in self.variants[v]["uid"]]
            if not tops:
                return
            x = r.choice(tops)
            xi = self.variants[x]["id"]
            y = r.choice(["Tools", "B", "optional"])
            if r.random() < 0.5 and y not in self.kids[x]:
                w = self.new(y, xi + "-" + y, self.sub_arches(x))
                self.emit(x, w, kind + "-child", expect_ok=True)
            if xi + y not in self.kids[None]:
                t = self.new(xi + y, xi + "-" + y, self.sub_arches(None))
                self.emit(None, t, kind, expect_ok=True)
            return
        if kind == "sameid":
            cs = [c for c in placed_vars if self.depth(c) <= 1]
            if not cs:
                return
            c = r.choice(cs)
            ci_ = self.variants[c]["id"]
            z = r.choice(["C", "Z"])
            if ci_ not in self.kids[c]:
                w = self.new(ci_, self.uid_of(c, ci_), self.variants[c]["arches"])
                self.emit(c, w, kind, expect_ok=True)
            w = self.kids[c].get(ci_)
            if w is not None and z not in self.kids[w]:
                zz = self.new(z, self.uid_of(w, z), self.sub_arches(w))
                self.emit(w, zz, kind + "-deep", expect_ok=True)
            if z not in self.kids[c]:
                zz = self.new(z, self.uid_of(c, z), self.sub_arches(c))
                self.emit(c, zz, kind + "-sibling", expect_ok=True)
            return
        if kind == "junkkey":
            id_ = self.fresh_id(None)
            v = self.new(id_, id_, self.sub_arches(None))
            return self.emit(None, v, kind, key=r.choice(["junk", "Server", id_ + "-x"]), expect_ok=True)
        if kind == "twin":
            # a second object with the attributes of a placed parent (refused as a duplicate), then a child of the first added to it (F33)
            ps = [v for v in placed_vars if self.kids[v]]
            if not ps:
                return
            pv = r.choice(ps)
            a = self.variants[pv]
            q = self.new(a["id"], a["uid"], a["arches"], typ=a["type"])
            self.emit(self.par[pv], q, kind + "-dup")
            ch = r.choice(sorted(self.kids[pv].values()))
            return self.emit(q, ch, kind)
        if kind == "dashparent":
            ds = [v for v in placed_vars if self.par[v] is None and "-" in self.variants[v]["uid"]]
            if not ds:
                return
            c = r.choice(ds)
            id_ = self.fresh_id(c)
            v = self.new(id_, self.uid_of(c, id_), self.sub_arches(c))
            return self.emit(c, v, kind, expect_ok=True)

    def case(self):
        n = self.rng.randint(2, 10 if self.tier == "quick" else 14)
        guard = 0
        while len(self.ops) < n and guard < 60:
            guard += 1
            self.step()
        # the pseudo-type 'self' (known finding F21 on every forest) is queried in the nasty stream and in one clean case out of ten
        args = {"variants": self.variants, "ops": self.ops,
                "self_queries": bool(self.nasty or self.rng.random() < (0.1 if self.tier == "quick" else 0.004))}
        if self.rng.random() < 0.12:
            args["twin"] = True
        if self.rng.random() < 0.15:
            args["dump_each"] = True
        if any("raw" in x for x in self.variants):
            args["untyped"] = True
        return {"op": "c11", "args": args}


# ------------------------------------------------------------------------------------------------ the Prop
class C11(Prop):
    id = "C11"
    lean_module = "ProductMD.Properties.C11"
    quick_budget = 1200
    thorough_budget = 10000
    rule = ("histories of 2-14 add calls (valid, duplicate id, foreign arch, misaligned UID, bad id/field, own ancestor, already-placed, "
            "re-add, retry of a refused object, dashed top-level UIDs, explicit keys) on forests of <= 8 placed variants, depth <= 3; after EVERY "
            "step: outcome class, children dicts, parent pointers, ci[uid] of every object compared real vs model, and the property's "
            "invariants evaluated on the real objects; on the final forest all 6 arch filters x 16 type subsets x recursive (+ 'self' "
            "queries on variants); the same after dumps()/loads(), whose deserialize add-history is replayed through the model; "
            "non-trivial = distinct history with at least one accepted and (quick: usually) one refused add; "
            "del stream (budget/4 further cases, harness/c11del.py): histories of 4-18 add / del steps - del by plain key and by dashed path (2 and 3 levels) "
            "on the top-level container and on variants, missing names (no key, missing head, missing tail, '', '-', 'A-', near-miss spellings), del twice, "
            "del then re-add (same place / elsewhere), add below a removed variant, del of a parent then lookups of the former children, UID of a dashed "
            "top-level variant, a child's full UID asked of its parent, a child named like a top-level variant; after EVERY step the snapshot, the "
            "designated entry, container[name] before the del and get_variants(recursive) compared real vs model, and the oracle (invariants; exactly the entry the "
            "lookup names goes; removed subtree not returned / not found; raising del = KeyError, nothing changed)")
    assumptions = ["attributes of a Variant (id, uid, name, type, arches) are not written between add calls (the property quantifies over add histories)",
                   "Python's stable list.sort is modelled by a stable insertion sort; str comparison by code point",
                   "RecursionError is modelled as running out of fuel (900 frames)",
                   "del: names are str; the delegation of __delitem__ gets len(name)+1 frames (it recurses once per dash), i.e. never hits the recursion limit"]
    partial = {
        "C11_inv_partial": "full Inv (parent/children mirror, one position per object, top-level UID alignment, top-level key = id or UID) is preserved by every add - accepted or refused, whatever the parent pointer of the argument - whose argument is not already filed under ANOTHER container object or key (AddOk). Still needed after the F13/F26 repair: add does not check it, and two Variant objects with one UID both accept the same child (F33, C11_two_parents_witness); explicit top-level keys are unchecked (F29). Unconditional part: C11_inv (InvW)",
        "C11_reachable_partial": "same hypothesis on every call of the history (OkRun); unconditional part: C11_reachable (InvW after ANY history)",
        "C11_inv_distinct_partial": "no hypothesis on the call: full Inv for EVERY add with the default key when the objects have pairwise different, not all-dash UIDs (UidsApart) - the hypothesis names F14/F33 (duplicate UIDs are not refused)",
        "C11_reachable_distinct_partial": "full Inv after ALL histories with default keys over objects with pairwise different UIDs",
        "C11_findable_partial": "lookup by UID from the top needs: top-level keys are id or UID (F29), UID of v not shared by another top-level variant (F14, C11_dup_uid_witness), dashed top-level variants childless (the property's quantifier), and NoShadow: no child of an ancestor a of v has the UID 'path of v relative to a' (F27, C11_shadow_witness: __getitem__ compares relative paths with full UIDs). By id from the parent / by key from the top are full (C11_findable_by_id, C11_findable_by_key)",
        "C11_findable_inv_partial": "as C11_findable_partial with key/alignment facts taken from Inv",
        "C11_get_variants_strict_partial": "generic form: strict order and no duplicates from pairwise distinct UIDs of the result; discharged without hypothesis for every variant container (C11_get_variants_strict_below)",
        "C11_get_variants_strict_top_partial": "on the top-level container distinctness of UIDs across top-level subtrees (TopApart) is a hypothesis: add does not enforce it (F14; with F33 a variant is then still returned twice: C11_twice_witness)",
        "C11_reachable_with_del_partial": "full Inv after any history of add / del when every ADD satisfies AddOk in the state it is made in (as C11_reachable_partial; nothing is asked of the dels); unconditional part: C11_reachable_with_del (InvW). C11_del_inv itself is unconditional for both invariants",
        "C11_get_variants_strict_dashless_partial": "TopApart derived from Inv when no top-level UID is dashed; with dashed top-level UIDs it stays a hypothesis (F14)",
    }

    def cases(self, rng, tier, budget):
        # the del stream (VariantBase.__delitem__): one case in four on top of the add histories
        for i in range(budget // 4):
            yield c11del.DelGen(rng, tier, (i % 5) >= 3).case()
        if tier == "quick":
            for i in range(budget):
                yield Gen(rng, tier, (i % 5) >= 3, untyped=(i % 12 == 5)).case()
            return
        # larger tiers: the clean stream first.  checklib stops consuming after a 2000-case chunk that produced more than 50
        # oracle failures, and the nasty stream produces the known findings by the hundred.
        n_clean = budget * 3 // 5
        for i in range(n_clean):
            yield Gen(rng, tier, False, untyped=(i % 12 == 5)).case()
        for i in range(budget - n_clean):
            yield Gen(rng, tier, True, untyped=(i % 12 == 5)).case()

    def __init__(self):
        self._cache = {}

    def real(self, case):
        if case["op"] == "c11del":
            return c11del.execute(case)
        out = execute(case)
        self._cache[checklib.key_of(case)] = out
        return out

    def model_requests(self, case):
        if case["op"] == "c11del":
            return c11del.model_requests(case)
        a = case["args"]
        if a.get("untyped"):
            self._cache.pop(checklib.key_of(case), None)
            return []                 # a field holds a non-string: outside the typed model; real side + oracle only
        out = self._cache.pop(checklib.key_of(case), None) or execute(case)
        reqs = [{"op": "c11_history", "args": {"variants": a["variants"], "ops": [{"c": o["c"], "v": o["v"], "key": o.get("key")} for o in a["ops"]],
                                               "queries": out["queries"], "fuel": 900}}]
        rl = out.get("reload")
        if rl and "ops" in rl:
            reqs.append({"op": "c11_history", "args": {"variants": rl["variants"], "ops": rl["ops"], "queries": rl["queries"], "fuel": 900}})
        return reqs

    def model_result(self, case, outs):
        return outs

    @staticmethod
    def _proj_steps(steps):
        return [{"out": s["out"], "top": s["top"], "kids": s["kids"], "parent": s["parent"], "byuid": s["byuid"]} for s in steps]

    def compare(self, case, real_out, model_out):
        if case["op"] == "c11del":
            return c11del.compare(case, real_out, model_out)
        r = {"steps": self._proj_steps(real_out["steps"]), "qres": real_out["qres"]}
        m = {"steps": self._proj_steps(model_out[0]["steps"]), "qres": model_out[0]["queries"]}
        rl = real_out.get("reload")
        if rl and "ops" in rl and len(model_out) > 1:
            ms = model_out[1]["steps"]
            r["reload"] = {"outs": rl["outs"], "final": self._proj_steps([dict(rl["snap"], out=rl["outs"][-1])])[0] if rl["ops"] else None, "qres": rl["qres"]}
            m["reload"] = {"outs": [s["out"] for s in ms], "final": self._proj_steps(ms[-1:])[0] if ms else None, "qres": model_out[1]["queries"]}
        if r != m:
            # keep the report small: first differing component
            for k in r:
                if r[k] != m.get(k):
                    if k == "steps":
                        for i, (x, y) in enumerate(zip(r[k], m[k])):
                            if x != y:
                                return {"real": {"step": i, "snap": x}, "model": {"step": i, "snap": y}}
                    if k == "qres":
                        for q, x, y in zip(real_out["queries"], r[k], m[k]):
                            if x != y:
                                return {"real": {"query": q, "res": x}, "model": {"query": q, "res": y}}
                    return {"real": {k: r[k]}, "model": {k: m.get(k)}}
        return None

    def oracle(self, case, real_out):
        is_del = case["op"] == "c11del"
        fails = c11del.oracle_run(case, real_out) if is_del else oracle_run(case, real_out)
        if not fails:
            return None
        unexplained = [f for f in fails if not (c11del.explained(f) if is_del else _explained(f))]
        # among explained failures report the rarer ones first (the F28 'self' queries fail on every forest of the nasty stream)
        order = sorted(fails, key=lambda f_: (f_["kind"] != "reload-failed", f_["kind"].startswith("gv-")))
        f = (unexplained or order)[0]
        return {"observed": f["observed"], "required": f["required"], "kind": f["kind"]}

    def nontrivial(self, case, real_out):
        outs = [s["out"] for s in real_out["steps"]]
        return "ok" in outs

    def stats(self, case, real_out, dist):
        if case["op"] == "c11del":
            return c11del.stats(case, real_out, dist)
        for op, s in zip(case["args"]["ops"], real_out["steps"]):
            k = "op:%s:%s" % (op.get("kind", "?"), "ok" if s["out"] == "ok" else s["out"])
            dist[k] = dist.get(k, 0) + 1
        if real_out["steps"]:
            fin = real_out["steps"][-1]
            n = len(_placed(fin))
            dist["placed:%d" % n] = dist.get("placed:%d" % n, 0) + 1
            depth = 0
            lvl = [v for _, v in fin["top"]]
            seen = set()
            while lvl and depth < 10:
                depth += 1
                nxt = []
                for v in lvl:
                    if v not in seen:
                        seen.add(v); nxt.extend(w for _, w in fin["kids"][v])
                lvl = nxt
            dist["depth:%d" % depth] = dist.get("depth:%d" % depth, 0) + 1
        rl = real_out.get("reload")
        k = "reload:" + ("ok" if rl and "ops" in rl else "failed" if rl else "none")
        dist[k] = dist.get(k, 0) + 1
        dist["gv-queries"] = dist.get("gv-queries", 0) + len(real_out["queries"]) + (len(rl["queries"]) if rl and "ops" in rl else 0)

    def shrink_candidates(self, case):
        if case["op"] == "c11del":
            return c11del.shrink_candidates(case)
        a = case["args"]
        out = []
        ops = a["ops"]
        for i in range(len(ops) - 1, -1, -1):
            c = json.loads(json.dumps(case))
            del c["args"]["ops"][i]
            out.append(c)
        # drop unused trailing objects
        used = set()
        for o in ops:
            used.add(o["v"])
            if o["c"] is not None:
                used.add(o["c"])
        if a["variants"] and (len(a["variants"]) - 1) not in used:
            c = json.loads(json.dumps(case))
            c["args"]["variants"].pop()
            out.append(c)
        return out


PROP = C11()

MANIFEST = dict(
    technique="Lean 4 proof over an arena model of VariantBase.add/__getitem__/_get_all_parents/get_variants (State -> Op -> State x Out): invariants by "
              "induction over arbitrary add histories, refusal frame theorem from the order of mutations, lookup by induction on the dashed path, get_variants by "
              "induction on fuel/tree (sort = stable insertion sort, permutation + order lemmas); variant validation runs the rule list regenerated from the source "
              "(rules located by content); model tied to the code by per-step differential snapshots (children dicts, parent pointers, ci[uid] of every object, "
              "outcome class) and by replaying deserialize's add history after dumps/loads; oracle = the property evaluated on the real objects after every step",
    text="Unbounded (any number of variants, depth, history, fuel). C11_refused: whatever the cause, a refused add leaves every children dict unchanged; "
         "C11_accepted_frame: an accepted one appends exactly one entry. C11_inv/C11_reachable: after ANY history every entry k->v below a variant p has k = v.id, "
         "v.uid = p.uid-v.id, v.arches within p.arches, validated dash-free ids, distinct keys (InvW). C11_inv_partial/C11_reachable_partial: for histories on fresh "
         "objects also parent/children mirror, one position per object, top-level alignment (Inv). C11_findable_by_id/_by_key: full; C11_findable_partial: by UID from "
         "the top at any depth, hypotheses naming F14/F20/F22 exactly. C11_get_variants_sorted/_sound/_complete/_all: ordered by UID, both filters sound ('src' matches "
         "all), complete without type filter (arch completeness uses arches-subset). C11_get_variants_strict_below: on a variant, strictly increasing UIDs and no "
         "duplicates with NO hypothesis on UIDs (distinctness below a variant is derived from InvW); on the top level it needs UIDs of different top-level subtrees to "
         "differ (derived from Inv when no top-level UID is dashed). Witness theorems (decide, replayed on the real code): F14, F27, F28, F33 (F13/F26 repaired: examples).",
    note="add interprets the statement script of VariantBase.add regenerated from the source (tools/gen_forest.py); C11_refused is for the WHOLE state (children dicts and "
         "parent pointers). False of the code and kept as known findings with predicates: F14 (dashed top-level UID may equal a child's UID), F33 (a variant already filed under "
         "one object is accepted by another object with the same UID), F27 (__getitem__ compares the relative path with full child UIDs: ci['A-A-C'] is A-C), F28 ('self' ignores "
         "the arch filter / raises on the top level), F29 (explicit top-level key unchecked). Repaired: F13, F26. Not modelled: attribute writes "
         "between adds, the JSON writer/reader (the reloaded forest is tied by replaying deserialize's add history through the model); termination of "
         "get_variants is not proved (results are stated for every fuel that suffices; running out of fuel = RecursionError). "
         "del container[name] (VariantBase.__delitem__, Model/ForestDel.lean, hand-written, tied by the per-step differential of the del stream in harness/c11del.py): "
         "C11_del_inv (InvW AND the full Inv survive every del, no hypothesis), C11_del_missing_keyerror (a raising del is a KeyError and changes nothing), C11_del_frame "
         "(one entry of one dict goes, every other dict and EVERY parent pointer stay - the removed object keeps its stale pointer and its subtree), C11_del_removes_subtree "
         "(under Inv: the removed variant and everything below it is unreachable from the top, returned by no get_variants, found by no lookup), C11_reachable_with_del / "
         "_partial (any history of add / refused add / del / raising del). F48 (known): del has no UID scan, so del c[name] and c[name] can designate different variants "
         "(C11_del_other_witness, C11_del_uid_keyerror_witness, C11_del_shadow_witness).",
    ref="7/C11")
