"""C01 - composeinfo survives a write/read cycle unchanged."""
import copy, json, os, re, tempfile
import checklib
from checklib import Prop
from formats import composeinfo as F


def _variants(spec):
    return [v for v, _ in F.walk(spec)]


def corrupt(rng, spec):
    """one change that the writer must refuse (or, for the last few, accept): exercises the writer's error branches"""
    s = copy.deepcopy(spec)
    vs = _variants(s)
    kinds = ["version", "rel_type", "label", "date", "ctype", "cid", "no_base", "bp_version", "falsy", "falsy", "nearmiss", "nontype"]
    if vs:
        kinds += ["vid", "vuid", "varch", "noarch", "blank_name", "lp_norelease", "vtype", "dup_uid", "lp_rel_type", "child_key_uid", "top_key", "dup_child"]
    k = rng.choice(kinds)
    FALSY = [None, False, 0, 0.0, "", [], {}]
    if k in ("falsy", "nontype"):
        # a falsy value of every type / a value of another type, in any field (GENERATOR_AUDIT A8); JSON-able values only
        # (the case must be replayable from a file), so tuple() / set() are left to C06
        val = rng.choice(FALSY) if k == "falsy" else rng.choice([1, 1.5, True, "x", ["x"], {"x": 1}])
        targets = [("compose", f) for f in ("id", "type", "date", "respin", "label", "final")] + \
                  [("release", f) for f in ("name", "short", "version", "type", "is_layered", "internal")]
        if s["release"]["is_layered"] and s["base_product"] is not None:
            targets += [("base_product", f) for f in ("name", "short", "version", "type")]
        targets += [("variant", f) for f in ("id", "uid", "name", "type", "arches")] * (2 if vs else 0)
        lp = [v for v in vs if v["type"] == F.LP and v["release"] is not None]
        targets += [("vrelease", f) for f in ("name", "version", "type", "internal")] * (1 if lp else 0)
        sec, f = rng.choice(targets)
        if sec == "variant":
            v = rng.choice(vs)
            v[f] = val
            if f == "id":
                v["key"] = val if isinstance(val, str) else "k"
        elif sec == "vrelease":
            rng.choice(lp)["release"][f] = val
        else:
            if sec == "compose" and f == "final" and not s["compose"]["label"]:
                s["compose"]["label"] = "RC-1.0"          # final is only looked at next to a label
            s[sec][f] = val
        return "%s:%s.%s" % (k, sec, f), s
    if k == "nearmiss":
        # near misses, proper prefixes and extensions of the enumeration literals (GENERATOR_AUDIT A7 / C2)
        which = rng.choice(["rel_type", "ctype", "label", "vtype", "lp_literal"])
        if which == "rel_type":
            s["release"]["type"] = rng.choice(["updates-testin", "updates-testing2", "e4", "e4s2", "ga ", " ga", "Ga", "update", "eus\n\n", "fast-"])
        elif which == "ctype":
            s["compose"]["type"] = rng.choice(["productio", "production2", "nightly2", "n", "t", "CI", "test ", "developmen"])
        elif which == "label":
            s["compose"]["label"] = rng.choice(["RC-1", "Update-1.0x", "Updates-1.0", "Snapshot-1.0 ", "RC1.0", "RC--1.0", "SecurityFi-1.0", "EA-1.", "Beta-.1", " RC-1.0", "Alpha-1.0\n\n"])
        elif vs:
            v = rng.choice(vs)
            v["type"] = rng.choice(["layered-produc", "layered-product2", "layered_product", "addons", "variants", "Optional", "option"])
        return "nearmiss:" + which, s
    if k == "version":
        s["release"]["version"] = rng.choice(["1..2", "1.", "7x", "", "1.2\n"])
    elif k == "rel_type":
        s["release"]["type"] = rng.choice(["GA", "Updates", "beta", ""])
    elif k == "label":
        s["compose"]["label"] = rng.choice(["GA", "Beta-1", "RC-1.0.0", "rc-1.0", "RC-1.0\n", ""])
    elif k == "date":
        s["compose"]["date"] = rng.choice(["2015", "201501011", "2015010a"])
    elif k == "ctype":
        s["compose"]["type"] = rng.choice(["Production", "prod", ""])
    elif k == "cid":
        s["compose"]["id"] = rng.choice(["", "F-22", "F-2015010"])
    elif k == "no_base":
        s["release"]["is_layered"] = True
        s["base_product"] = None
    elif k == "bp_version":
        s["release"]["is_layered"] = True
        s["base_product"] = {"name": "B", "short": "b", "version": "1..1", "type": "ga"}
    else:
        v = rng.choice(vs)
        if k == "vid":
            v["id"] = v["key"] = rng.choice(["a-b", "", "a b"])
        elif k == "vuid":
            v["uid"] = v["uid"] + "x"
        elif k == "varch":
            v["arches"] = v["arches"] + ["mips"]
        elif k == "noarch":
            v["arches"] = []
        elif k == "blank_name":
            v["name"] = ""
        elif k == "lp_norelease":
            v["type"] = F.LP
            v["release"] = None
        elif k == "vtype":
            v["type"] = rng.choice(["Variant", "layered", ""])
        elif k == "lp_rel_type":
            v["type"] = F.LP
            v["release"] = {"name": "L", "short": "l", "version": "1", "type": "GA", "is_layered": True, "internal": False}
        elif k == "dup_uid":
            # a second variant with the same UID elsewhere in the forest (F14): refused by the writer unless identical
            w = copy.deepcopy(v)
            w["variants"] = []
            w["id"] = w["key"] = w["uid"].replace("-", "")
            if rng.random() < 0.5:
                w["name"] = w["name"] + "2"
            if any(t["key"] == w["key"] for t in s["variants"]):
                w["key"] = w["key"] + "dup"     # a dict cannot hold two values under one key
            s["variants"].append(w)
        elif k == "child_key_uid":
            kids = [x for x in vs if x["variants"]]
            if kids:
                c = rng.choice(rng.choice(kids)["variants"])
                c["key"] = c["uid"]              # accepted by _validate_variants (key == uid); written by id
        elif k == "dup_child":
            kids = [x for x in vs if x["variants"]]
            if kids:
                p = rng.choice(kids)
                c = copy.deepcopy(rng.choice(p["variants"]))
                c["key"] = c["uid"]              # the same child a second time, under its UID: written once, read back once
                p["variants"].append(c)
        elif k == "top_key":
            t = rng.choice(s["variants"])
            t["key"] = rng.choice([t["uid"], t["id"] + "x"])
            while sum(1 for x in s["variants"] if x["key"] == t["key"]) > 1:
                t["key"] += "x"                  # a dict cannot hold two values under one key
    return k, s


class C01(Prop):
    id = "C01"
    lean_module = "ProductMD.Properties.C01"
    quick_budget = 560
    thorough_budget = 16000     # ~8 min
    rule = ("generated compose descriptions (all release/compose types, labels, layered/internal, forests to depth 4 with all variant "
            "types, layered-product releases, dashed top-level UIDs, child arches within the parent's, any subset of the 14 categories, "
            "stray/empty paths) built through the public API; oracle on the real library: dumps -> loads -> every public attribute "
            "equals norm(spec), second dumps byte-equal (every 7th case through dump(path)/load(path)); correspondence: real bytes == "
            "model bytes, real snapshot == model loads (own text and real text), same refusal class for corrupted descriptions; "
            "construction: styles of filling the objects (assign vs in-place add/update of arches and path dicts, add() before/after the "
            "children) chosen per case, every third case assembles a second description interleaved in the same process; what the objects "
            "hold after construction == what was put in, the bystander is untouched and round-trips too; path values incl. boundary "
            "spellings (trailing/doubled/leading slash, ./, blanks, non-ASCII, long, line feed); non-trivial = written successfully")
    assumptions = ["json.loads = Model/JsonParse.lean, json.dump = JsonText.render (both compared with CPython on every run); C01_bytes_parsed needs no parser hypothesis",
                   "typed model: attributes hold values of the validated types; the object graph is a forest whose parent pointers mirror "
                   "the dicts (every object handed to add() once, while unplaced: the Fresh histories of C11). An object placed twice "
                   "through a stale parent pointer (F26) is written by the library but is not a forest: corpus case, known finding",
                   "str.lower modelled on ASCII only (release type case-fold; exact for every type in RELEASE_TYPES)"]
    partial = {}      # the only hypothesis left (WellKeyed) is established by add(): C01_api_wellkeyed / C01_api_roundtrip

    def __init__(self):
        self._cache = {}

    # ---- generators
    FILE_MODES = [False, "existing", False, "long", False, "new", False, "symlink", False, "fileobj"]
    BREAKS = [("compose.label", "GA"), ("compose.date", "2015"), ("compose.type", "prod"), ("release.version", "1..2"),
              ("release.type", "GA"), ("compose.id", ""), ("release.internal", None), ("compose.respin", "1")]

    def cases(self, rng, tier, budget):
        checklib.use_repo()
        g = F.Gen(rng, tier)
        yield {"op": "tables", "args": {}}            # documented enumerations == the code's tables (both inclusions)
        for i in range(budget):
            spec = g.spec()
            if i % 7 == 5:
                kind, bad = corrupt(rng, spec)
                yield {"op": "roundtrip", "args": {"spec": bad, "raw": True, "corrupt": kind, "file": False}}
                continue
            if i % 11 == 7:
                kind, odd = g.untyped(spec)
                yield {"op": "roundtrip", "args": {"spec": odd, "raw": False, "untyped": kind, "file": False, "style": F.gen_style(rng)}}
                continue
            args = {"spec": spec, "raw": False, "file": self.FILE_MODES[i % len(self.FILE_MODES)], "style": F.gen_style(rng),
                    "probe": i % 2 == 0}
            if i % 3 == 1:
                # a second description assembled in the same process, construction steps interleaved
                args["other"] = g.spec()
                args["other_style"] = F.gen_style(rng)
            if i % 4 == 2:
                args["history"] = g.history(spec)[0]          # dump -> modify -> dump and load -> modify -> dump
            if i % 5 == 4:
                f, bad = self.BREAKS[(i // 5) % len(self.BREAKS)]
                args["break"] = {"field": f, "bad": bad}       # failed dump -> repair -> dump
            if i % 9 == 6:
                args["preload"] = g.spec()                     # the text is loaded into an object that already holds a compose
            yield {"op": "roundtrip", "args": args}

    # ---- real side
    def real(self, case):
        out = self._real(case)
        self._last = (case, out)
        return out

    def _real(self, case):
        checklib.use_repo()
        if case["op"] == "tables":
            return {"tables": F.tables()}
        import shutil
        from productmd.composeinfo import ComposeInfo
        a = case["args"]
        out = {}
        other = None
        try:
            if a.get("other") is not None:
                ci, other = F.build_interleaved([a["spec"], a["other"]], raws=[a.get("raw", False), False],
                                                styles=[a.get("style"), a.get("other_style")])
            else:
                ci = F.build(a["spec"], raw=a.get("raw", False), style=a.get("style"))
        except Exception as e:  # noqa
            return {"build": checklib.err_class(e)}
        if a.get("probe"):
            out["probe"] = len(F.probe(ci))           # every public read-only entry point; must leave the description alone
            if other is not None:
                F.probe(other)
        out["built"] = F.snap(ci)                     # what the library holds after construction (and probing), before any write
        if other is not None:
            out["other_built"] = F.snap(other)
        if a.get("alias_top") is not None:
            # F26 region: an already placed child is handed to ci.variants.add() again
            try:
                ci.variants.add(F.find_variant(ci, a["alias_top"]))
            except Exception as e:  # noqa
                return {"build": checklib.err_class(e)}
        mode = a.get("file")
        mode = "existing" if mode is True else mode
        tmpdir = tempfile.mkdtemp(prefix="c01-") if mode else None
        try:
            path = target = None
            if mode:
                target = os.path.join(tmpdir, "composeinfo.json")
                path = target
                if mode == "existing":
                    open(target, "w").close()
                elif mode == "long":
                    with open(target, "w") as f:
                        f.write("{" + "x" * 200000)               # longer than anything written: must be truncated
                elif mode == "symlink":
                    path = os.path.join(tmpdir, "link.json")
                    open(target, "w").close()
                    os.symlink(target, path)

            def dump(obj):
                if not mode:
                    return obj.dumps()
                if mode == "fileobj":
                    with open(target, "w") as f:
                        obj.dump(f)
                else:
                    obj.dump(path)
                with open(target) as f:
                    return f.read()

            def load(text, into=None):
                c2 = into if into is not None else ComposeInfo()
                if not mode:
                    c2.loads(text)
                else:
                    with open(target, "w") as f:
                        f.write(text)
                    if mode == "fileobj":
                        with open(target) as f:
                            c2.load(f)
                    else:
                        c2.load(path)
                    c2.validate()
                return c2

            def cycle(obj):
                """dumps -> loads of one object: (text, snapshot) or error class"""
                try:
                    t = obj.dumps()
                    c = ComposeInfo()
                    c.loads(t)
                    return {"ok": F.snap(c), "stable": obj.dumps() == t and c.dumps() == t}
                except Exception as e:  # noqa
                    return checklib.err_class(e)
            try:
                text = dump(ci)
            except Exception as e:  # noqa
                out["dumps"] = checklib.err_class(e)
                return out
            out["dumps"] = {"ok": text}
            out["after"] = F.snap(ci)                 # the description after writing (the writer forces is_layered on variants)
            # the same call again; the dict handed back by serialize() must not alias the object's state
            try:
                again = dump(ci)
                p = ci.serialize({})
                for sec in list(p.get("payload", {}).values()):
                    if isinstance(sec, dict):
                        for k in list(sec):
                            if isinstance(sec[k], dict):
                                for kk in list(sec[k]):
                                    if isinstance(sec[k][kk], (list, dict)):
                                        sec[k][kk].clear()
                                sec[k].clear()
                        sec.clear()
                out["again"] = {"same": again == text, "after_alias": ci.dumps() == text}
            except Exception as e:  # noqa
                out["again"] = checklib.err_class(e)
            if other is not None:
                out["other_after"] = F.snap(other)    # the bystander must not be touched by writing / reading the first one
                ol = cycle(other)
                out["other_loads"] = ol if "err" in ol else {"ok": ol["ok"]}
            try:
                c2 = load(text)
            except Exception as e:  # noqa
                out["loads"] = checklib.err_class(e)
                return out
            out["loads"] = {"ok": F.snap(c2)}
            out["header"] = [ci.header.version, c2.header.version]
            try:
                out["redump"] = {"ok": dump(c2)}
            except Exception as e:  # noqa
                out["redump"] = checklib.err_class(e)
            if a.get("preload") is not None:
                try:
                    pre_text = F.build(a["preload"]).dumps()
                    c4 = ComposeInfo()
                    c4.loads(pre_text)
                    try:
                        c4.loads(text)
                        out["preload"] = {"ok": F.snap(c4)}
                        try:
                            c4.loads(text)                      # the same text once more
                            out["preload_twice"] = {"ok": F.snap(c4), "text_same": c4.dumps() == text}
                        except Exception as e:  # noqa
                            out["preload_twice"] = checklib.err_class(e)
                    except Exception as e:  # noqa
                        out["preload"] = checklib.err_class(e)
                except Exception as e:  # noqa
                    out["preload"] = {"skip": type(e).__name__}
            if a.get("break") is not None:
                b = a["break"]
                objname, attr = b["field"].split(".")
                obj = getattr(ci, objname)
                good = getattr(obj, attr)
                setattr(obj, attr, b["bad"])
                try:
                    ci.dumps()
                    res = {"refused": False}
                except Exception as e:  # noqa
                    res = {"refused": type(e).__name__}
                setattr(obj, attr, good)
                try:
                    res["text_same"] = ci.dumps() == text
                    res["snap"] = F.snap(ci)
                except Exception as e:  # noqa
                    res["err"] = type(e).__name__
                out["break"] = res
            if a.get("history") is not None:
                for name, obj in (("hist_orig", ci), ("hist_loaded", c2)):
                    try:
                        F.apply_ops(obj, a["history"])
                        out[name] = cycle(obj)
                    except Exception as e:  # noqa
                        out[name] = {"err": type(e).__name__, "stage": "apply"}
            return out
        finally:
            if tmpdir is not None:
                shutil.rmtree(tmpdir, ignore_errors=True)

    # ---- model side
    def model_requests(self, case):
        if case["op"] == "tables":
            return []
        a = case["args"]
        if a.get("alias_top") is not None:
            return []           # not a forest: outside the tree model (the arena model of C11 covers it)
        if not typed_ok(a["spec"]):
            return []           # outside the typed domain of the model (bool respin, non-string path, falsy of another type): oracle only
        spec = F.strip_parent(a["spec"])
        reqs = [{"op": "composeinfo_dumps", "args": {"spec": spec}},
                {"op": "composeinfo_serialize", "args": {"spec": spec}}]
        last = getattr(self, "_last", None)
        r = last[1] if last is not None and last[0] is case else self._real(case)
        text = (r.get("dumps") or {}).get("ok")
        if text is not None:
            try:
                doc = json.loads(text)
            except ValueError:
                doc = None
            if doc is not None:
                reqs.append({"op": "composeinfo_loads", "args": {"doc": doc}})
                reqs.append({"op": "composeinfo_redump", "args": {"doc": doc}})
                if a.get("preload") is not None and typed_ok(a["preload"]):
                    # the same document loaded into an object that already holds the preload compose
                    reqs.append({"op": "composeinfo_load_into", "args": {"held": F.strip_parent(F.norm(a["preload"])), "doc": doc}})
        return reqs

    def model_result(self, case, outs):
        outs = [json.loads(o) if isinstance(o, str) else o for o in outs]     # ops answer with ASCII JSON text in a string
        res = {"dumps": outs[0]}
        ser = outs[1]
        if isinstance(ser, dict) and "ok" in ser:
            res["doc"] = ser["ok"]
        if len(outs) > 2:
            res["loads"] = outs[2]
            res["redump"] = outs[3]
        if len(outs) > 4:
            res["preload"] = outs[4]
        return res

    def compare(self, case, real_out, model_out):
        if "build" in real_out:
            return None                                    # refused before the writer ran (add()): nothing to compare
        diffs = {}
        if checklib.canon(real_out.get("dumps")) != checklib.canon(model_out.get("dumps")):
            diffs["dumps"] = (real_out.get("dumps"), model_out.get("dumps"))
        if "doc" in model_out and "ok" in (real_out.get("dumps") or {}):
            try:
                parsed = json.loads(real_out["dumps"]["ok"])
            except ValueError:
                parsed = "<the written text is not a JSON document>"
            if parsed != model_out["doc"]:
                diffs["doc"] = "serialize() value differs from the parsed real text"
        for k in ("loads", "redump", "preload"):
            if k == "preload" and not ("preload" in model_out and "skip" not in (real_out.get("preload") or {"skip": 1})):
                continue
            if k in real_out or k in model_out:
                if checklib.canon(real_out.get(k)) != checklib.canon(model_out.get(k)):
                    diffs[k] = (real_out.get(k), model_out.get(k))
        if diffs:
            return {"real": dict((k, v[0] if isinstance(v, tuple) else v) for k, v in diffs.items()),
                    "model": dict((k, v[1] if isinstance(v, tuple) else v) for k, v in diffs.items())}
        return None

    # ---- the property itself, on the real library
    def oracle(self, case, real_out):
        if case["op"] == "tables":
            t = real_out["tables"]
            for name, doc in (("categories", F.CATEGORIES), ("release_types", F.DOC_RELEASE_TYPES), ("compose_types", F.DOC_COMPOSE_TYPES),
                              ("label_names", F.DOC_LABEL_NAMES), ("variant_types", F.DOC_VARIANT_TYPES)):
                if sorted(t[name]) != sorted(doc):
                    return {"observed": {"table": name, "missing": sorted(set(doc) - set(t[name])), "extra": sorted(set(t[name]) - set(doc)),
                                         "duplicates": len(t[name]) != len(set(t[name]))},
                            "required": "the code's table is exactly the documented set", "kind": "table-differs"}
            return None
        a = case["args"]
        # what the objects hold after construction is what was put in (any documented way of filling them, two
        # descriptions assembled side by side)
        if a.get("alias_top") is None and not a.get("raw"):
            for key, spec_key in (("built", "spec"), ("other_built", "other")):
                if real_out.get(key) is not None:
                    diff = F.same_description(a[spec_key], real_out[key])
                    if diff is not None:
                        return {"observed": dict(first_diff(diff[0], diff[1]) or {}, which=spec_key, style=a.get("style"), other_style=a.get("other_style")),
                                "required": "after construction through the public API the objects hold the description that was put in",
                                "kind": "construction-differs"}
        if real_out.get("other_after") is not None:
            diff = F.same_description(a["other"], real_out["other_after"], force_layered=True)
            if diff is not None:
                return {"observed": first_diff(diff[0], diff[1]), "required": "writing/reading one compose leaves another one in the same process untouched",
                        "kind": "cross-talk"}
            ol = real_out.get("other_loads")
            if (real_out.get("dumps") or {}).get("ok") is not None and isinstance(ol, dict) and "ok" in ol:
                got2, want2 = F.canon(ol["ok"]), F.canon(F.norm(a["other"]))
                if got2 != want2:
                    return {"observed": dict(first_diff(got2, want2) or {}, which="other"),
                            "required": "every documented field read back equal to what was written (normal form)", "kind": "fields-differ"}
        d = real_out.get("dumps")
        if not d or "ok" not in d:
            if not a.get("raw") and a.get("alias_top") is None and typed_ok(a["spec"]):
                # every value of the valid stream is legal per the quantifier (documented enumerations, free text, any respin ...)
                return {"observed": {"build": real_out.get("build"), "dumps": d}, "required": "a legal description is accepted and written",
                        "kind": "refused-valid"}
            return None                                    # the library did not agree to write this description
        want = F.canon(F.norm(a["spec"]))
        if a.get("alias_top") is not None:
            # the description actually written: the snapshot taken after dumps() (the alias sits at the top level too)
            want = F.canon(F.norm(F.strip_parent(real_out["after"])))
            for v, p in F.walk(want):
                pass
        lo = real_out.get("loads")
        if not lo or "ok" not in lo:
            return {"observed": {"loads": lo}, "required": "the written text loads again", "kind": "reload-refused"}
        got = F.canon(lo["ok"])
        if a.get("raw") and a.get("corrupt") in ("child_key_uid", "top_key", "dup_uid", "dup_child"):
            # key conventions / duplicate UIDs are outside the quantifier (hypotheses of the theorems); correspondence only
            pass
        elif got != want:
            return {"observed": first_diff(got, want), "required": "every documented field read back equal to what was written (normal form)",
                    "kind": "fields-differ"}
        rd = real_out.get("redump")
        if not rd or "ok" not in rd:
            return {"observed": {"redump": rd}, "required": "the re-read object can be written", "kind": "redump-refused"}
        if rd["ok"] != d["ok"]:
            return {"observed": first_text_diff(d["ok"], rd["ok"]), "required": "second dumps() byte-identical to the first", "kind": "bytes-differ"}
        ag = real_out.get("again")
        if ag is not None and not (ag.get("same") and ag.get("after_alias")):
            return {"observed": ag, "required": "a second dumps() of the same object, also after the dict returned by serialize() was emptied, gives the same text",
                    "kind": "repeat-differs"}
        hv = real_out.get("header")
        if hv is not None and (hv[0] != hv[1] or not re.match(r"^\d+\.\d+$", str(hv[0]))):
            return {"observed": hv, "required": "header version of the written and the re-read object is the current one", "kind": "header-version"}
        br = real_out.get("break")
        if br is not None:
            if br.get("refused") and not (br.get("text_same") and F.same_description(a["spec"], br.get("snap") or {}, force_layered=True) is None):
                return {"observed": dict((k, v) for k, v in br.items() if k != "snap"),
                        "required": "after a refused dumps() and the repair of the offending attribute the object is written exactly as before",
                        "kind": "failed-dump-left-traces"}
        for name, base in (("hist_orig", a["spec"]), ("hist_loaded", None)):
            h = real_out.get(name)
            if h is None:
                continue
            if base is None:
                base = F.strip_parent(F.norm(a["spec"]))
            want_h = F.canon(F.norm(F.apply_ops_spec(copy.deepcopy(base), a["history"])))
            if "ok" not in h:
                return {"observed": h, "required": "a description modified through the public API is written and read back (%s)" % name, "kind": "history-refused"}
            got_h = F.canon(h["ok"])
            if got_h != want_h or not h.get("stable"):
                return {"observed": dict(first_diff(got_h, want_h) or {"stable": h.get("stable")}, which=name, ops=[o["op"] for o in a["history"]]),
                        "required": "after modifications through the public API the written description is read back equal to the modified one",
                        "kind": "history-differs"}
        pl = real_out.get("preload")
        if pl is not None and "skip" not in pl:
            pre_top = set(v["id"] for v in a["preload"]["variants"])
            facts = {"error": pl.get("err"), "leftover_top_level": [], "leftover_base_product": False,
                     "clashing_top_level_ids": sorted(pre_top & set(v["id"] for v in a["spec"]["variants"]))}
            ok = False
            if "ok" in pl:
                got_p = F.canon(pl["ok"])
                if got_p == want:
                    ok = True
                else:
                    facts["leftover_top_level"] = sorted(v["key"] for v in got_p["variants"] if v["key"] in pre_top and v["key"] not in set(x["key"] for x in want["variants"]))
                    rest = dict(got_p, variants=[v for v in got_p["variants"] if v["key"] not in facts["leftover_top_level"]])
                    if rest.get("base_product") is not None and want.get("base_product") is None:
                        facts["leftover_base_product"] = True
                        rest["base_product"] = None
                    facts["rest_equal"] = rest == want
            if not ok:
                return {"observed": facts, "required": "loads() into an object that already holds a compose gives the loaded description",
                        "kind": "reload-into-nonempty"}
            tw = real_out.get("preload_twice")
            if tw is not None and not ("ok" in tw and F.canon(tw["ok"]) == want and tw.get("text_same")):
                return {"observed": {"second_load_of_the_same_text": tw if "err" in tw else first_diff(F.canon(tw["ok"]), want) or {"text_same": tw.get("text_same")}},
                        "required": "the same text can be loaded again into the object and gives the same description and the same text",
                        "kind": "reload-into-nonempty"}
        # writing must not alter the description itself beyond the documented is_layered forcing
        aft = real_out.get("after")
        if aft is not None and not a.get("raw") and a.get("alias_top") is None:
            diff = F.same_description(a["spec"], aft, force_layered=True)
            if diff is not None:
                return {"observed": first_diff(diff[0], diff[1]), "required": "dumps() leaves the description unchanged", "kind": "writer-mutates"}
        return None

    def nontrivial(self, case, real_out):
        if case["op"] == "tables":
            return True
        return "ok" in (real_out.get("dumps") or {})

    def stats(self, case, real_out, dist):
        if case["op"] == "tables":
            return
        a = case["args"]
        spec = a["spec"]
        d = real_out.get("dumps") or {}
        key = "written" if "ok" in d else ("refused:" + str(d.get("err") or (real_out.get("build") or {}).get("err")))
        dist[key] = dist.get(key, 0) + 1
        if a.get("corrupt"):
            dist["corrupt:" + a["corrupt"]] = dist.get("corrupt:" + a["corrupt"], 0) + 1
            return
        vs = F.walk(spec)

        def depth(v):
            return 1 + max([depth(k) for k in v["variants"]] or [0])
        for k, val in (("release_type:" + spec["release"]["type"], 1), ("compose_type:" + spec["compose"]["type"], 1),
                       ("label:" + (spec["compose"]["label"] or "none-").split("-")[0], 1),
                       ("layered", int(spec["release"]["is_layered"])), ("internal", int(spec["release"]["internal"])),
                       ("depth:%d" % max([depth(v) for v in spec["variants"]] or [0]), 1), ("variants_total", len(vs)),
                       ("dashed_top", sum(1 for v, p in vs if p is None and "-" in v["uid"])),
                       ("lp_variants", sum(1 for v, p in vs if v["type"] == F.LP)),
                       ("final_with_label", int(bool(spec["compose"]["label"]) and spec["compose"]["final"]))):
            dist[k] = dist.get(k, 0) + val
        for v, _ in vs:
            dist["vtype:" + v["type"]] = dist.get("vtype:" + v["type"], 0) + 1
            for cat in v["paths"]:
                dist["cat:" + cat] = dist.get("cat:" + cat, 0) + 1

    def shrink_candidates(self, case):
        if case["op"] == "tables":
            return []
        a = case["args"]
        spec = a["spec"]
        out = []

        def with_spec(s):
            c = copy.deepcopy(case)
            c["args"]["spec"] = s
            return c
        # drop one variant (subtree) at a time
        n = len(F.walk(spec))
        for i in range(n):
            s = copy.deepcopy(spec)
            v, p = F.walk(s)[i]
            (p["variants"] if p is not None else s["variants"]).remove(v)
            out.append(with_spec(s))
        for i in range(n):
            s = copy.deepcopy(spec)
            v, _ = F.walk(s)[i]
            if v["paths"]:
                for cat in list(v["paths"]):
                    s2 = copy.deepcopy(s)
                    v2, _ = F.walk(s2)[i]
                    del v2["paths"][cat]
                    out.append(with_spec(s2))
            if len(v["arches"]) > 1 and not v["variants"]:
                s2 = copy.deepcopy(s)
                v2, _ = F.walk(s2)[i]
                v2["arches"] = v2["arches"][:1]
                out.append(with_spec(s2))
        if spec["release"]["is_layered"]:
            s = copy.deepcopy(spec); s["release"]["is_layered"] = False; s["base_product"] = None; out.append(with_spec(s))
        elif spec["base_product"] is not None:
            s = copy.deepcopy(spec); s["base_product"] = None; out.append(with_spec(s))
        if spec["compose"]["label"]:
            s = copy.deepcopy(spec); s["compose"]["label"] = None; out.append(with_spec(s))
        if spec["compose"]["final"]:
            s = copy.deepcopy(spec); s["compose"]["final"] = False; out.append(with_spec(s))
        if spec["release"]["internal"]:
            s = copy.deepcopy(spec); s["release"]["internal"] = False; out.append(with_spec(s))
        if a.get("file"):
            c = copy.deepcopy(case); c["args"]["file"] = False; out.append(c)
        if a.get("other") is not None:
            c = copy.deepcopy(case); c["args"].pop("other"); c["args"].pop("other_style", None); out.append(c)
            n2 = len(F.walk(a["other"]))
            for i in range(n2):
                c = copy.deepcopy(case)
                v, p = F.walk(c["args"]["other"])[i]
                (p["variants"] if p is not None else c["args"]["other"]["variants"]).remove(v)
                out.append(c)
        for k in ("style", "other_style"):
            if a.get(k) and a[k] != F.DEFAULT_STYLE:
                c = copy.deepcopy(case); c["args"][k] = dict(F.DEFAULT_STYLE); out.append(c)
                for f in sorted(F.DEFAULT_STYLE):
                    if a[k].get(f) != F.DEFAULT_STYLE[f]:
                        c = copy.deepcopy(case); c["args"][k][f] = F.DEFAULT_STYLE[f]; out.append(c)
        return out


def typed_ok(spec):
    """does the description lie in the typed domain of the Lean model (str / int-not-bool / bool / list of str / dict of str)?"""
    def st(x):
        return isinstance(x, str)

    def rel(r, full):
        return isinstance(r, dict) and all(st(r.get(k)) for k in ("name", "short", "version", "type")) and \
            (not full or (isinstance(r.get("is_layered"), bool) and isinstance(r.get("internal"), bool)))
    c = spec["compose"]
    if not (st(c["id"]) and st(c["type"]) and st(c["date"]) and isinstance(c["respin"], int) and not isinstance(c["respin"], bool)
            and (c["label"] is None or st(c["label"])) and isinstance(c["final"], bool)):
        return False
    if not rel(spec["release"], True) or not (spec["base_product"] is None or rel(spec["base_product"], False)):
        return False
    for v, _ in F.walk(spec):
        if not (st(v["key"]) and st(v["id"]) and st(v["uid"]) and st(v["name"]) and st(v["type"]) and isinstance(v["arches"], list)
                and all(st(x) for x in v["arches"]) and (v["release"] is None or rel(v["release"], True))):
            return False
        for cat, t in v["paths"].items():
            if not isinstance(t, dict) or not all(st(k) and st(x) for k, x in t.items()):
                return False
    return True


def first_diff(got, want, path=""):
    """first differing position of two JSON-like values"""
    if type(got) != type(want):
        return {"at": path, "observed": got, "expected": want}
    if isinstance(got, dict):
        for k in sorted(set(got) | set(want)):
            if k not in got or k not in want:
                return {"at": path + "/" + str(k), "observed": got.get(k, "<absent>"), "expected": want.get(k, "<absent>")}
            d = first_diff(got[k], want[k], path + "/" + str(k))
            if d:
                return d
        return None
    if isinstance(got, list):
        if len(got) != len(want):
            return {"at": path, "observed": "%d items: %s" % (len(got), json.dumps(got)[:300]), "expected": "%d items: %s" % (len(want), json.dumps(want)[:300])}
        for i, (x, y) in enumerate(zip(got, want)):
            d = first_diff(x, y, "%s[%d]" % (path, i))
            if d:
                return d
        return None
    return None if got == want else {"at": path, "observed": got, "expected": want}


def first_text_diff(a, b):
    la, lb = a.splitlines(), b.splitlines()
    for i, (x, y) in enumerate(zip(la, lb)):
        if x != y:
            return {"line": i + 1, "first": x, "second": y}
    return {"line": min(len(la), len(lb)) + 1, "first": "<%d lines>" % len(la), "second": "<%d lines>" % len(lb)}


PROP = C01()

MANIFEST = dict(
    technique="Lean 4 proof over a typed model of the composeinfo writer/reader (nested-inductive variant forest, uid-keyed flattening with the setdefault refusal, fuel-based rebuild with every add()/validate() of the code), validators taken from the rule lists regenerated from the source; tie to the arena model of add() (C11) for the key convention; model tied by byte-exact differential correspondence (dumps text, parsed document, loads snapshot, second dump, refusal classes); round-trip oracle on the real library",
    text="C01_readback: serialize ci = ok j -> deserialize j = ok (norm ci) for forests of any depth and width, any arches and paths, layered-product releases, base product, label/final; C01_fixpoint: serialize (norm ci) = ok j (same document), C01_bytes_parsed: dumps -> the modelled CPython json.loads (key-sorted document) -> loads -> dumps gives the same text, with no parser hypothesis: C01_reader_order_independent (the reader returns the same object for the key-sorted document, any duplicate-free document it accepts) and C01_written_representable (the written document is JSON-representable, its only integer is the respin) are theorems; what is left is that int() accepts the respin's digits under the digit limit (nothing for limit 0 or <= 640 digits); C01_norm_id/C01_norm_sections/C01_norm_variant/C01_stored_path: norm is the identity on normal objects and performs only the documented normalisations. Only hypothesis: dict keys are the ids with no key twice (WellKeyed), and C01_api_wellkeyed proves it for the forest built by ANY history of default-key add() calls (arena model of C11), so C01_api_roundtrip has no forest hypothesis. C01_written_uids_distinct: a written well-keyed forest has pairwise different UIDs (the writer's 'Variant UID already exist' refusal, incl. the dashed top-level collision F14). Lemmas about the generated validators (UID alignment, dashless uid = id at top level, non-empty id, release type table, blank release/base product refused, empty label refused) stop compiling when the validator is removed.",
    note="Modelled, not verified: CPython's json.loads is Model/JsonParse.lean (compared with the real parser by harness/json_diff.py), json.dump is JsonText.render (bytes compared on every case); typed attribute domain (fields hold values of the validated types; bool respin, non-string paths are outside); the object graph is a forest whose parent pointers mirror the dicts (an object placed twice via a stale parent pointer, F26, is written by the library and re-read without the alias: known finding); str.lower on ASCII. Header versions < 1.0 are refused by the model reader (C05).",
    ref="7/C01")
