"""C01 - composeinfo survives a write/read cycle unchanged."""
import copy, json, os, tempfile
import checklib
from checklib import Prop
from formats import composeinfo as F


def _variants(spec):
    return [v for v, _ in F.walk(spec)]


def corrupt(rng, spec):
    """one change that the writer must refuse (or, for the last few, accept): exercises the writer's error branches"""
    s = copy.deepcopy(spec)
    vs = _variants(s)
    kinds = ["version", "rel_type", "label", "date", "ctype", "cid", "no_base", "bp_version"]
    if vs:
        kinds += ["vid", "vuid", "varch", "noarch", "blank_name", "lp_norelease", "vtype", "dup_uid", "lp_rel_type", "child_key_uid", "top_key", "dup_child"]
    k = rng.choice(kinds)
    if k == "version":
        s["release"]["version"] = rng.choice(["1..2", "1.", "7x", "", "1.2\n"])
    elif k == "rel_type":
        s["release"]["type"] = rng.choice(["GA", "Updates", "beta", ""])
    elif k == "label":
        s["compose"]["label"] = rng.choice(["GA", "Beta-1", "RC-1.0.0", "rc-1.0", "RC-1.0\n", ""])
    elif k == "date":
        s["compose"]["date"] = rng.choice(["2015", "201501011", "2015010a"])
    elif k == "ctype":
        s["compose"]["type"] = rng.choice(["Production", "prod", ""])
    elif k == "cid":
        s["compose"]["id"] = rng.choice(["", "F-22", "F-2015010"])
    elif k == "no_base":
        s["release"]["is_layered"] = True
        s["base_product"] = None
    elif k == "bp_version":
        s["release"]["is_layered"] = True
        s["base_product"] = {"name": "B", "short": "b", "version": "1..1", "type": "ga"}
    else:
        v = rng.choice(vs)
        if k == "vid":
            v["id"] = v["key"] = rng.choice(["a-b", "", "a b"])
        elif k == "vuid":
            v["uid"] = v["uid"] + "x"
        elif k == "varch":
            v["arches"] = v["arches"] + ["mips"]
        elif k == "noarch":
            v["arches"] = []
        elif k == "blank_name":
            v["name"] = ""
        elif k == "lp_norelease":
            v["type"] = F.LP
            v["release"] = None
        elif k == "vtype":
            v["type"] = rng.choice(["Variant", "layered", ""])
        elif k == "lp_rel_type":
            v["type"] = F.LP
            v["release"] = {"name": "L", "short": "l", "version": "1", "type": "GA", "is_layered": True, "internal": False}
        elif k == "dup_uid":
            # a second variant with the same UID elsewhere in the forest (F14): refused by the writer unless identical
            w = copy.deepcopy(v)
            w["variants"] = []
            w["id"] = w["key"] = w["uid"].replace("-", "")
            if rng.random() < 0.5:
                w["name"] = w["name"] + "2"
            if any(t["key"] == w["key"] for t in s["variants"]):
                w["key"] = w["key"] + "dup"     # a dict cannot hold two values under one key
            s["variants"].append(w)
        elif k == "child_key_uid":
            kids = [x for x in vs if x["variants"]]
            if kids:
                c = rng.choice(rng.choice(kids)["variants"])
                c["key"] = c["uid"]              # accepted by _validate_variants (key == uid); written by id
        elif k == "dup_child":
            kids = [x for x in vs if x["variants"]]
            if kids:
                p = rng.choice(kids)
                c = copy.deepcopy(rng.choice(p["variants"]))
                c["key"] = c["uid"]              # the same child a second time, under its UID: written once, read back once
                p["variants"].append(c)
        elif k == "top_key":
            t = rng.choice(s["variants"])
            t["key"] = rng.choice([t["uid"], t["id"] + "x"])
    return k, s


class C01(Prop):
    id = "C01"
    lean_module = "ProductMD.Properties.C01"
    quick_budget = 900
    thorough_budget = 20000
    rule = ("generated compose descriptions (all release/compose types, labels, layered/internal, forests to depth 4 with all variant "
            "types, layered-product releases, dashed top-level UIDs, child arches within the parent's, any subset of the 14 categories, "
            "stray/empty paths) built through the public API; oracle on the real library: dumps -> loads -> every public attribute "
            "equals norm(spec), second dumps byte-equal (every 7th case through dump(path)/load(path)); correspondence: real bytes == "
            "model bytes, real snapshot == model loads (own text and real text), same refusal class for corrupted descriptions; "
            "non-trivial = written successfully")
    assumptions = ["json.load inverts json.dump on the documents the writer produces (stdlib; exercised by every case)",
                   "typed model: attributes hold values of the validated types; the object graph is a forest whose parent pointers mirror "
                   "the dicts (every object handed to add() once, while unplaced: the Fresh histories of C11). An object placed twice "
                   "through a stale parent pointer (F26) is written by the library but is not a forest: corpus case, known finding",
                   "str.lower modelled on ASCII only (release type case-fold; exact for every type in RELEASE_TYPES)"]
    partial = {}      # the only hypothesis left (WellKeyed) is established by add(): C01_api_wellkeyed / C01_api_roundtrip

    def __init__(self):
        self._cache = {}

    # ---- generators
    def cases(self, rng, tier, budget):
        checklib.use_repo()
        g = F.Gen(rng, tier)
        for i in range(budget):
            spec = g.spec()
            if i % 7 == 5:
                kind, bad = corrupt(rng, spec)
                yield {"op": "roundtrip", "args": {"spec": bad, "raw": True, "corrupt": kind, "file": False}}
            else:
                yield {"op": "roundtrip", "args": {"spec": spec, "raw": False, "file": i % 5 == 3}}

    # ---- real side
    def real(self, case):
        out = self._real(case)
        self._last = (case, out)
        return out

    def _real(self, case):
        checklib.use_repo()
        from productmd.composeinfo import ComposeInfo
        a = case["args"]
        out = {}
        try:
            ci = F.build(a["spec"], raw=a.get("raw", False))
        except Exception as e:  # noqa
            return {"build": checklib.err_class(e)}
        if a.get("alias_top") is not None:
            # F26 region: an already placed child is handed to ci.variants.add() again (accepted against its stale parent)
            def find(c, uid):
                for v in c.variants.values():
                    if v.uid == uid:
                        return v
                    r = find(v, uid)
                    if r is not None:
                        return r
                return None
            try:
                ci.variants.add(find(ci.variants, a["alias_top"]))
            except Exception as e:  # noqa
                return {"build": checklib.err_class(e)}
        tmp = None
        try:
            if a.get("file"):
                fd, tmp = tempfile.mkstemp(suffix=".json")
                os.close(fd)

            def dump(obj):
                if tmp is None:
                    return obj.dumps()
                obj.dump(tmp)
                with open(tmp) as f:
                    return f.read()

            def load(text):
                c2 = ComposeInfo()
                if tmp is None:
                    c2.loads(text)
                else:
                    with open(tmp, "w") as f:
                        f.write(text)
                    c2.load(tmp)
                    c2.validate()
                return c2
            try:
                text = dump(ci)
            except Exception as e:  # noqa
                out["dumps"] = checklib.err_class(e)
                return out
            out["dumps"] = {"ok": text}
            out["after"] = F.snap(ci)                 # the description after writing (the writer forces is_layered on variants)
            try:
                c2 = load(text)
            except Exception as e:  # noqa
                out["loads"] = checklib.err_class(e)
                return out
            out["loads"] = {"ok": F.snap(c2)}
            try:
                out["redump"] = {"ok": dump(c2)}
            except Exception as e:  # noqa
                out["redump"] = checklib.err_class(e)
            return out
        finally:
            if tmp is not None:
                try:
                    os.unlink(tmp)
                except OSError:
                    pass

    # ---- model side
    def model_requests(self, case):
        a = case["args"]
        if a.get("alias_top") is not None:
            return []           # not a forest: outside the tree model (the arena model of C11 covers it)
        spec = F.strip_parent(a["spec"])
        reqs = [{"op": "composeinfo_dumps", "args": {"spec": spec}},
                {"op": "composeinfo_serialize", "args": {"spec": spec}}]
        last = getattr(self, "_last", None)
        r = last[1] if last is not None and last[0] is case else self._real(case)
        text = (r.get("dumps") or {}).get("ok")
        if text is not None:
            try:
                doc = json.loads(text)
            except ValueError:
                doc = None
            if doc is not None:
                reqs.append({"op": "composeinfo_loads", "args": {"doc": doc}})
                reqs.append({"op": "composeinfo_redump", "args": {"doc": doc}})
        return reqs

    def model_result(self, case, outs):
        outs = [json.loads(o) if isinstance(o, str) else o for o in outs]     # ops answer with ASCII JSON text in a string
        res = {"dumps": outs[0]}
        ser = outs[1]
        if isinstance(ser, dict) and "ok" in ser:
            res["doc"] = ser["ok"]
        if len(outs) > 2:
            res["loads"] = outs[2]
            res["redump"] = outs[3]
        return res

    def compare(self, case, real_out, model_out):
        if "build" in real_out:
            return None                                    # refused before the writer ran (add()): nothing to compare
        diffs = {}
        if checklib.canon(real_out.get("dumps")) != checklib.canon(model_out.get("dumps")):
            diffs["dumps"] = (real_out.get("dumps"), model_out.get("dumps"))
        if "doc" in model_out and "ok" in (real_out.get("dumps") or {}):
            if json.loads(real_out["dumps"]["ok"]) != model_out["doc"]:
                diffs["doc"] = "serialize() value differs from the parsed real text"
        for k in ("loads", "redump"):
            if k in real_out or k in model_out:
                if checklib.canon(real_out.get(k)) != checklib.canon(model_out.get(k)):
                    diffs[k] = (real_out.get(k), model_out.get(k))
        if diffs:
            return {"real": dict((k, v[0] if isinstance(v, tuple) else v) for k, v in diffs.items()),
                    "model": dict((k, v[1] if isinstance(v, tuple) else v) for k, v in diffs.items())}
        return None

    # ---- the property itself, on the real library
    def oracle(self, case, real_out):
        a = case["args"]
        d = real_out.get("dumps")
        if not d or "ok" not in d:
            return None                                    # the library did not agree to write this description
        want = F.canon(F.norm(a["spec"]))
        if a.get("alias_top") is not None:
            # the description actually written: the snapshot taken after dumps() (the alias sits at the top level too)
            want = F.canon(F.norm(F.strip_parent(real_out["after"])))
            for v, p in F.walk(want):
                pass
        lo = real_out.get("loads")
        if not lo or "ok" not in lo:
            return {"observed": {"loads": lo}, "required": "the written text loads again", "kind": "reload-refused"}
        got = F.canon(lo["ok"])
        if a.get("raw") and a.get("corrupt") in ("child_key_uid", "top_key", "dup_uid", "dup_child"):
            # key conventions / duplicate UIDs are outside the quantifier (hypotheses of the theorems); correspondence only
            pass
        elif got != want:
            return {"observed": first_diff(got, want), "required": "every documented field read back equal to what was written (normal form)",
                    "kind": "fields-differ"}
        rd = real_out.get("redump")
        if not rd or "ok" not in rd:
            return {"observed": {"redump": rd}, "required": "the re-read object can be written", "kind": "redump-refused"}
        if rd["ok"] != d["ok"]:
            return {"observed": first_text_diff(d["ok"], rd["ok"]), "required": "second dumps() byte-identical to the first", "kind": "bytes-differ"}
        # writing must not alter the description itself beyond the documented is_layered forcing
        aft = real_out.get("after")
        if aft is not None and not a.get("raw") and a.get("alias_top") is None:
            before = F.canon(a["spec"])
            for v, _ in F.walk(before):
                if v["type"] == F.LP and v["release"] is not None:
                    v["release"]["is_layered"] = True
            after = F.canon(aft)
            for v, _ in F.walk(after):
                v.pop("parent", None)
                v["paths"] = dict((c, t) for c, t in v["paths"].items() if t)
            for v, _ in F.walk(before):
                v["paths"] = dict((c, t) for c, t in v["paths"].items() if t)
            if before != after:
                return {"observed": first_diff(after, before), "required": "dumps() leaves the description unchanged", "kind": "writer-mutates"}
        return None

    def nontrivial(self, case, real_out):
        return "ok" in (real_out.get("dumps") or {})

    def stats(self, case, real_out, dist):
        a = case["args"]
        spec = a["spec"]
        d = real_out.get("dumps") or {}
        key = "written" if "ok" in d else ("refused:" + str(d.get("err") or (real_out.get("build") or {}).get("err")))
        dist[key] = dist.get(key, 0) + 1
        if a.get("corrupt"):
            dist["corrupt:" + a["corrupt"]] = dist.get("corrupt:" + a["corrupt"], 0) + 1
            return
        vs = F.walk(spec)

        def depth(v):
            return 1 + max([depth(k) for k in v["variants"]] or [0])
        for k, val in (("release_type:" + spec["release"]["type"], 1), ("compose_type:" + spec["compose"]["type"], 1),
                       ("label:" + (spec["compose"]["label"] or "none-").split("-")[0], 1),
                       ("layered", int(spec["release"]["is_layered"])), ("internal", int(spec["release"]["internal"])),
                       ("depth:%d" % max([depth(v) for v in spec["variants"]] or [0]), 1), ("variants_total", len(vs)),
                       ("dashed_top", sum(1 for v, p in vs if p is None and "-" in v["uid"])),
                       ("lp_variants", sum(1 for v, p in vs if v["type"] == F.LP)),
                       ("final_with_label", int(bool(spec["compose"]["label"]) and spec["compose"]["final"]))):
            dist[k] = dist.get(k, 0) + val
        for v, _ in vs:
            dist["vtype:" + v["type"]] = dist.get("vtype:" + v["type"], 0) + 1
            for cat in v["paths"]:
                dist["cat:" + cat] = dist.get("cat:" + cat, 0) + 1

    def shrink_candidates(self, case):
        a = case["args"]
        spec = a["spec"]
        out = []

        def with_spec(s):
            c = copy.deepcopy(case)
            c["args"]["spec"] = s
            return c
        # drop one variant (subtree) at a time
        n = len(F.walk(spec))
        for i in range(n):
            s = copy.deepcopy(spec)
            v, p = F.walk(s)[i]
            (p["variants"] if p is not None else s["variants"]).remove(v)
            out.append(with_spec(s))
        for i in range(n):
            s = copy.deepcopy(spec)
            v, _ = F.walk(s)[i]
            if v["paths"]:
                for cat in list(v["paths"]):
                    s2 = copy.deepcopy(s)
                    v2, _ = F.walk(s2)[i]
                    del v2["paths"][cat]
                    out.append(with_spec(s2))
            if len(v["arches"]) > 1 and not v["variants"]:
                s2 = copy.deepcopy(s)
                v2, _ = F.walk(s2)[i]
                v2["arches"] = v2["arches"][:1]
                out.append(with_spec(s2))
        if spec["release"]["is_layered"]:
            s = copy.deepcopy(spec); s["release"]["is_layered"] = False; s["base_product"] = None; out.append(with_spec(s))
        elif spec["base_product"] is not None:
            s = copy.deepcopy(spec); s["base_product"] = None; out.append(with_spec(s))
        if spec["compose"]["label"]:
            s = copy.deepcopy(spec); s["compose"]["label"] = None; out.append(with_spec(s))
        if spec["compose"]["final"]:
            s = copy.deepcopy(spec); s["compose"]["final"] = False; out.append(with_spec(s))
        if spec["release"]["internal"]:
            s = copy.deepcopy(spec); s["release"]["internal"] = False; out.append(with_spec(s))
        if a.get("file"):
            c = copy.deepcopy(case); c["args"]["file"] = False; out.append(c)
        return out


def first_diff(got, want, path=""):
    """first differing position of two JSON-like values"""
    if type(got) != type(want):
        return {"at": path, "observed": got, "expected": want}
    if isinstance(got, dict):
        for k in sorted(set(got) | set(want)):
            if k not in got or k not in want:
                return {"at": path + "/" + str(k), "observed": got.get(k, "<absent>"), "expected": want.get(k, "<absent>")}
            d = first_diff(got[k], want[k], path + "/" + str(k))
            if d:
                return d
        return None
    if isinstance(got, list):
        if len(got) != len(want):
            return {"at": path, "observed": "%d items: %s" % (len(got), json.dumps(got)[:300]), "expected": "%d items: %s" % (len(want), json.dumps(want)[:300])}
        for i, (x, y) in enumerate(zip(got, want)):
            d = first_diff(x, y, "%s[%d]" % (path, i))
            if d:
                return d
        return None
    return None if got == want else {"at": path, "observed": got, "expected": want}


def first_text_diff(a, b):
    la, lb = a.splitlines(), b.splitlines()
    for i, (x, y) in enumerate(zip(la, lb)):
        if x != y:
            return {"line": i + 1, "first": x, "second": y}
    return {"line": min(len(la), len(lb)) + 1, "first": "<%d lines>" % len(la), "second": "<%d lines>" % len(lb)}


PROP = C01()

MANIFEST = dict(
    technique="Lean 4 proof over a typed model of the composeinfo writer/reader (nested-inductive variant forest, uid-keyed flattening with the setdefault refusal, fuel-based rebuild with every add()/validate() of the code), validators taken from the rule lists regenerated from the source; tie to the arena model of add() (C11) for the key convention; model tied by byte-exact differential correspondence (dumps text, parsed document, loads snapshot, second dump, refusal classes); round-trip oracle on the real library",
    text="C01_readback: serialize ci = ok j -> deserialize j = ok (norm ci) for forests of any depth and width, any arches and paths, layered-product releases, base product, label/final; C01_fixpoint: serialize (norm ci) = ok j (same document), C01_bytes: dumps -> parse -> loads -> dumps gives the same text (json.load inverting the printer is an explicit hypothesis); C01_norm_id/C01_norm_sections/C01_norm_variant/C01_stored_path: norm is the identity on normal objects and performs only the documented normalisations. Only hypothesis: dict keys are the ids with no key twice (WellKeyed), and C01_api_wellkeyed proves it for the forest built by ANY history of default-key add() calls (arena model of C11), so C01_api_roundtrip has no forest hypothesis. C01_written_uids_distinct: a written well-keyed forest has pairwise different UIDs (the writer's 'Variant UID already exist' refusal, incl. the dashed top-level collision F14). Lemmas about the generated validators (UID alignment, dashless uid = id at top level, non-empty id, release type table, blank release/base product refused, empty label refused) stop compiling when the validator is removed.",
    note="Modelled, not verified: json parser assumed to invert the printer (hypothesis of C01_bytes, exercised on every case); typed attribute domain (fields hold values of the validated types; bool respin, non-string paths are outside); the object graph is a forest whose parent pointers mirror the dicts (an object placed twice via a stale parent pointer, F26, is written by the library and re-read without the alias: known finding); str.lower on ASCII. Header versions < 1.0 are refused by the model reader (C05).",
    ref="7/C01")
