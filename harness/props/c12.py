"""C12 - manifest builders file each entry exactly where the arguments say."""
import copy, json
import checklib
from checklib import Prop
from formats import manifest_common as mc
from formats import rpms as f_rpms, modules as f_modules, extra_files as f_extra

FORMATS = {"rpms": f_rpms, "modules": f_modules, "extra_files": f_extra}
# mappings as a loaded (not built) manifest could hold them: the model's branches for ill-shaped states
# (correspondence only: the property quantifies over manifests built by add calls)
ILL = {
    "rpms": [{"Server": 5}, {"Server": {"x86_64": []}}, {"Server": {"x86_64": {"foo-0:1.0-1.src": 7}}}, [], None, "x",
             {"Server": {"x86_64": {"foo-0:1.0-1.src": {"foo-0:1.0-1.src": None}}}}, {"Server": None}, {"Server": {"x86_64": "y"}}],
    "modules": [{"Server": 5}, {"Server": {"x86_64": []}}, {"Server": {"x86_64": {"httpd:2.4": 7}}},
                {"Server": {"x86_64": {"httpd:2.4": {"modulemd_path": 3}}}}, {"Server": {"x86_64": {"httpd:2.4": {"rpms": {}}}}},
                {"Server": {"x86_64": {"httpd:2.4": {"modulemd_path": {"debug": "d"}, "rpms": None, "metadata": 1}}}}, [], None,
                {"Server": {"x86_64": {"httpd:2.4": []}}}],
    "extra_files": [{"Server": 5}, {"Server": {"x86_64": {}}}, {"Server": {"x86_64": "abc"}}, {"Server": []}, [], None,
                    {"Server": {"x86_64": None}}, {"Server": {"x86_64": [1, "two"]}}],
}
ILL_OPS = {
    "rpms": [{"variant": "Server", "arch": "x86_64", "nevra": "foo-0:1.0-1.src", "path": "p", "sigkey": None, "category": "source", "srpm": None},
             {"variant": "Client", "arch": "x86_64", "nevra": "foo-0:1.0-1.src", "path": "p", "sigkey": "AB", "category": "source", "srpm": None},
             {"variant": "Server", "arch": "s390x", "nevra": "foo-libs-0:1.0-1.s390x", "path": "p", "sigkey": None, "category": "binary",
              "srpm": "foo-0:1.0-1.src"}],
    "modules": [{"variant": "Server", "arch": "x86_64", "uid": "httpd:2.4", "koji_tag": "t", "modulemd_path": "m.yaml", "category": "binary",
                 "rpms": {"list": ["a"]}},
                {"variant": "Server", "arch": "x86_64", "uid": "httpd:2.5", "koji_tag": "t", "modulemd_path": "m.yaml", "category": "debug",
                 "rpms": {"tuple": ["b"]}},
                {"variant": "Client", "arch": "x86_64", "uid": "httpd:2.4", "koji_tag": "t", "modulemd_path": "m.yaml", "category": "binary",
                 "rpms": {"list": []}}],
    "extra_files": [{"variant": "Server", "arch": "x86_64", "path": "GPL", "size": 1, "checksums": {"md5": "x"}},
                    {"variant": "Server", "arch": "ppc64le", "path": "GPL", "size": 1, "checksums": {"md5": "x"}},
                    {"variant": "Client", "arch": "x86_64", "path": "GPL", "size": 1, "checksums": {}}],
}
# audit A8: falsy values of every type for every parameter (corrupting stream, REAL side only: outside the model's argument types)
FALSY = ["None", "False", "0", "0.0", "''", "[]", "{}", "()", "set()"]
FALSY_PY = {"None": None, "False": False, "0": 0, "0.0": 0.0, "''": "", "[]": [], "{}": {}, "()": (), "set()": set(),
            "5": 5, "[1]": [1], "True": True, "{'a': 1}": {"a": 1}, "1.5": 1.5}
PARAMS = {"rpms": ["variant", "arch", "nevra", "path", "sigkey", "category", "srpm"],
          "modules": ["variant", "arch", "uid", "koji_tag", "modulemd_path", "category", "rpms"],
          "extra_files": ["variant", "arch", "path", "size", "checksums"]}
# audit A5 (real side only: str.lower() is ASCII-only in the model): non-ASCII signing keys must be stored lower-cased
SIGKEYS_UNICODE = ["\u00c4B12", "\u0130D", "\u03a3\u03a3", "\uff21\uff22"]
# audit A10/B4: a table ASSIGNED as a fresh container (not filled through add), with buckets that exist but are empty
WELL = {
    "rpms": [{"Server": {}}, {"Server": {"x86_64": {}}}, {"Server": {"x86_64": {"foo-0:1.0-1.src": {}}}}, {"Server": {}, "Client": {"s390x": {}}}],
    "modules": [{"Server": {}}, {"Server": {"x86_64": {}}}, {"Server": {"x86_64": {"httpd:2.4": {}}}}, {"Server": {}, "Client": {"s390x": {}}}],
    "extra_files": [{"Server": {}}, {"Server": {"x86_64": []}}, {"Server": {"x86_64": [], "s390x": []}, "Client": {}}],
}
BASES = ["Server/x86_64/os", "Server/x86_64/os/", "Server/x86_64/os//", "Server/x86_64/o", "Server/x86", "Client", "", "/",
         "a/b", "a/b/", "a", "a/", "a/b/c", "Server/x86_64/os/GPL", "docs", "doc", "a/bc", "Server/x86_64/os2",
         "os", "os/", "a/a", "a/a/", "a/a//", "x/os", "a/b/a", "os/repos"]
# base (with / without trailing slashes) occurring again inside and at the end of the path; repeated components
REPEAT = [("Server/x86_64/os", "Server/x86_64/os/docs/Server/x86_64/os/GPL"), ("os", "os/repos/os/EULA"), ("os/", "os/os/os/EULA"),
          ("a/a", "a/a/a/a/x"), ("a/a/", "a/a/b/a/a/x"), ("a", "a/a/a"), ("a", "a/ba/a/x"), ("a//", "a/x/a/"), ("x/os", "x/os/x/os/x/os"),
          ("a/b", "a/b/a/b"), ("a/b", "a/b/a/b/"), ("a/b", "a/b/c/a/b/c/a/b"), ("os", "repos/os/EULA"), ("os", "osos/os/EULA"), ("b", "a/b/b/x")]


def strip_ops(ops):
    """what goes to the model: the call without the generator's annotations; floats in the protocol encoding"""
    return [dict((k, (mc.enc(v) if k == "size" else v)) for k, v in op.items() if k not in ("expect", "why")) for op in ops]


class C12(Prop):
    id = "C12"
    lean_module = "ProductMD.Properties.C12"
    quick_budget = 1800
    thorough_budget = 12000     # ~9 min; 24000 took 18 min
    rule = ("histories of add calls (rpms / modules / extra_files round-robin; valid, one-parameter-corrupted and randomly mutated "
            "arguments; repeats; the same entry under several variants/arches; read-only calls interleaved: dump_for_tree with bases that "
            "prefix / do not prefix / only textually prefix the stored paths, a second export with another base, obj[variant], dumps()) run step by step on the real object and on the Lean "
            "model: outcome class and the whole mapping compared after EVERY call; oracle per call on the real object: refused => "
            "ValueError/TypeError and mapping unchanged, read-only call => WHOLE mapping unchanged and the export = what the adds so far "
            "determine, accepted => exactly the addressed entry changed and holds the documented "
            "record under the canonical key; dump_for_tree/_relative_to with bases that are / are not / only textually prefix the "
            "stored paths; non-trivial = distinct history")
    assumptions = ["str.lower() is modelled for ASCII letters only (signing keys are hex strings)",
                   "arguments are of the documented types (str, or None where allowed; uid / rpms / checksums / size arbitrary JSON-like "
                   "values, tuples for rpms); a caller mutating a checksums dict after the call is outside the model (values, not aliases)"]
    partial = {}

    def cases(self, rng, tier, budget):
        # every kind of case in every chunk the pipeline consumes (it stops early after 50 disagreements):
        # generate all, then interleave deterministically
        out = list(self._cases(rng, tier, budget))
        rng.shuffle(out)
        return out

    def _cases(self, rng, tier, budget):
        f_rpms.reset_budget(tier)
        mc.reset_round_robin()
        kinds = ["rpms", "modules", "extra_files"]
        n_tree = max(30, budget // 8)
        n_rel = max(60, budget // 5)
        for k in kinds:
            for init in ILL[k]:
                for _ in range(2):
                    ops = [dict(rng.choice(ILL_OPS[k])) for _ in range(rng.choice([1, 2, 3]))]
                    yield {"op": "trace_init", "args": {"kind": k, "init": init, "ops": ops}}
        for i in range(n_tree):
            ops = f_extra.gen_ops(rng, tier, n=rng.choice([1, 3, 6]), valid_only=rng.random() < 0.85)
            v = ops[0]["variant"] if rng.random() < 0.9 else "Nope"
            a = ops[0]["arch"] if rng.random() < 0.9 else "s390x"
            yield {"op": "dump_for_tree", "args": {"ops": ops, "variant": v, "arch": a, "basepath": rng.choice(BASES)}}
        for base, path in REPEAT:
            for tail in ("", "/", "//"):
                yield {"op": "relative_to", "args": {"path": path, "root": base.rstrip("/") + tail}}
        for i in range(n_rel // 3):
            # built: base + "/" + middle + base + "/" + rest, and paths made of one repeated component
            comps = [rng.choice(["a", "os", "x", "Server", "b"]) for _ in range(rng.choice([1, 2, 3]))]
            base = "/".join(comps)
            if rng.random() < 0.5:
                path = base + "/" + rng.choice(["", "docs/", "repos/", "a/"]) + base + "/" + rng.choice(["", "GPL", base, base + "/x"])
            else:
                path = "/".join([comps[0]] * rng.randint(2, 5)) + rng.choice(["", "/x", "/"])
            yield {"op": "relative_to", "args": {"path": path, "root": base + rng.choice(["", "/", "//"])}}
        for i in range(n_rel):
            path = rng.choice(f_extra.DIRS) + rng.choice(f_extra.FILES)
            r = rng.random()
            if r < 0.4:
                root = rng.choice(BASES)
            elif r < 0.7:
                cut = rng.randint(0, len(path))
                root = path[:cut] + rng.choice(["", "/", "//"])
            else:
                root = mc.mutate_str(rng, rng.choice(BASES), alphabet="/ab.")
            yield {"op": "relative_to", "args": {"path": path, "root": root}}
        base_ops = {"rpms": f_rpms.valid_op(rng, f_rpms.gen_source(rng), "Server", "x86_64", 0),
                    "modules": f_modules.valid_op(rng, ["httpd", "2.4", "1", "abc"], "Server", "x86_64", 0),
                    "extra_files": f_extra.valid_op(rng, "Server", "x86_64")}
        for k in kinds:
            for field in PARAMS[k]:
                for tag in FALSY:                                   # complete: every parameter x every falsy value
                    yield {"op": "falsy", "args": {"kind": k, "base": base_ops[k], "field": field, "value": {"$py": tag}}}
        for tag in ("5", "[1]", "True", "{'a': 1}", "1.5"):             # F42: truthy non-strings as signing key -> TypeError
            yield {"op": "falsy", "args": {"kind": "rpms", "base": base_ops["rpms"], "field": "sigkey", "value": {"$py": tag}}}
        for sk in SIGKEYS_UNICODE:
            yield {"op": "falsy", "args": {"kind": "rpms", "base": base_ops["rpms"], "field": "sigkey", "value": sk}}
        # the two key parsers on their own: valid texts, the unparsable pools, and random edits of both
        for i in range(max(200, budget // 4)):
            src = f_rpms.gen_source(rng)
            vop = f_rpms.valid_op(rng, src, "V", "x86_64", rng.randrange(3))
            base = vop["nevra"] if rng.random() < 0.8 else rng.choice(f_rpms.UNPARSABLE)
            keep = rng.random() < 0.4
            s = base if keep else mc.mutate_str(rng, base)
            yield {"op": "check_nevra", "args": {"s": s, "expect": vop["expect"]["key"] if keep and base is vop["nevra"] else None}}
        for i in range(max(200, budget // 4)):
            parts = f_modules.gen_module(rng)
            good = rng.random() < 0.8
            base = rng.choice(f_modules.PREFIXES) + ":".join(parts) if good else rng.choice([u for u in f_modules.BAD_UIDS if isinstance(u, str)])
            keep = rng.random() < 0.4
            s = base if keep else mc.mutate_str(rng, base)
            if rng.random() < 0.03:
                yield {"op": "check_uid", "args": {"uid": rng.choice([None, 7, ["a:b"], {"a": "b"}]), "expect": None}}
            else:
                yield {"op": "check_uid", "args": {"uid": s, "expect": ":".join(parts) if good and keep else None}}
        for i in range(budget):
            k = kinds[i % 3]
            ops = FORMATS[k].gen_ops(rng, tier)
            args = {"kind": k, "ops": ops}
            if i % 10 == 9:
                args["init"] = WELL[k][(i // 10) % len(WELL[k])]
                first = {"rpms": lambda: f_rpms.valid_op(rng, f_rpms.gen_source(rng), "Server", "x86_64", i),
                         "modules": lambda: f_modules.valid_op(rng, rng.choice([["httpd", "2.4"], f_modules.gen_module(rng)]), "Server", "x86_64", i),
                         "extra_files": lambda: f_extra.valid_op(rng, "Server", "x86_64")}[k]()
                args["ops"] = ops = [first] + ops
            if rng.random() < 0.6:
                args["ops"] = mc.interleave_readonly(rng, ops, k, BASES)
            if i % 3 == 1:
                args["twin"] = True                                  # audit B1: a second object driven interleaved
            yield {"op": "trace", "args": args}

    # ---- real side
    def real(self, case):
        a = case["args"]
        pm = mc.lib()
        if case["op"] == "trace":
            f = FORMATS[a["kind"]]
            obj = f.new()
            twin = f.new() if a.get("twin") else None
            if "init" in a:
                for o in (obj, twin):
                    if o is not None:
                        setattr(o, a["kind"], copy.deepcopy(a["init"]))
            return {"steps": mc.run_trace(obj, f.mapping, f.add, a["ops"], twin=twin)}
        if case["op"] == "falsy":
            f = FORMATS[a["kind"]]
            obj = f.new()
            f.add(obj, a["base"])                                   # something to lose
            before = mc.enc(f.mapping(obj))
            v = a["value"]
            v = copy.deepcopy(FALSY_PY[v["$py"]]) if isinstance(v, dict) else v
            op = dict(a["base"])
            op[a["field"]] = v
            try:
                if a["kind"] == "rpms":
                    obj.add(op["variant"], op["arch"], op["nevra"], op["path"], op["sigkey"], op["category"], op["srpm"])
                elif a["kind"] == "modules":
                    obj.add(op["variant"], op["arch"], op["uid"], op["koji_tag"], op["modulemd_path"], op["category"],
                            v if a["field"] == "rpms" else f_modules.seq_arg(op["rpms"]))
                else:
                    obj.add(op["variant"], op["arch"], op["path"], op["size"], op["checksums"])
                out = {"ok": None}
            except Exception as e:  # noqa
                out = {"err": type(e).__name__}
            return {"out": out, "before": before, "after": mc.enc(f.mapping(obj))}
        if case["op"] == "check_nevra":
            return checklib.guarded(lambda: pm.rpms.Rpms()._check_nevra(a["s"])[0])
        if case["op"] == "check_uid":
            return checklib.guarded(lambda: pm.modules.Modules()._check_uid(a["uid"])[0])
        if case["op"] == "trace_init":
            f = FORMATS[a["kind"]]
            obj = f.new()
            setattr(obj, {"rpms": "rpms", "modules": "modules", "extra_files": "extra_files"}[a["kind"]], copy.deepcopy(a["init"]))
            return {"steps": mc.run_trace(obj, f.mapping, f.add, a["ops"])}
        if case["op"] == "relative_to":
            return checklib.guarded(pm.extra_files._relative_to, a["path"], a["root"])
        if case["op"] == "dump_for_tree":
            obj = f_extra.new()
            accepted = []
            for i, op in enumerate(a["ops"]):
                try:
                    f_extra.add(obj, op)
                    accepted.append(i)
                except (ValueError, TypeError):
                    pass
            stored = copy.deepcopy(obj.extra_files)
            try:
                return {"ok": f_extra.dump_for_tree(obj, a["variant"], a["arch"], a["basepath"]), "stored": mc.enc(stored), "accepted": accepted}
            except Exception as e:  # noqa
                return {"err": type(e).__name__, "stored": mc.enc(stored), "accepted": accepted}
        raise ValueError(case["op"])

    # ---- model side
    def model_requests(self, case):
        a = case["args"]
        if case["op"] == "trace":
            req = {"kind": a["kind"], "ops": strip_ops(a["ops"])}
            if "init" in a:
                req["init"] = a["init"]
            return [{"op": "bld_trace", "args": req}]
        if case["op"] == "falsy":
            return []
        if case["op"] in ("check_nevra", "check_uid"):
            return [{"op": "bld_" + case["op"], "args": dict((k, v) for k, v in a.items() if k != "expect")}]
        if case["op"] == "trace_init":
            return [{"op": "bld_trace", "args": {"kind": a["kind"], "init": a["init"], "ops": a["ops"]}}]
        if case["op"] == "relative_to":
            return [{"op": "bld_relative_to", "args": a}]
        if case["op"] == "dump_for_tree":
            return [{"op": "bld_dump_for_tree", "args": dict(a, ops=strip_ops(a["ops"]))}]
        return []

    def model_result(self, case, outs):
        if case["op"] in ("trace", "trace_init"):
            return {"steps": outs[0]}
        if case["op"] == "relative_to":
            return {"ok": outs[0]}
        return outs[0]

    def compare(self, case, real_out, model_out):
        if case["op"] == "dump_for_tree":
            real_out = dict((k, v) for k, v in real_out.items() if k not in ("stored", "accepted"))
        if case["op"] == "trace":
            real_out = {"steps": [dict((k, v) for k, v in st.items() if k != "twin_differs") for st in real_out["steps"]]}
        if json.dumps(real_out, sort_keys=True) != json.dumps(model_out, sort_keys=True):
            if case["op"] in ("trace", "trace_init"):
                for i, (r, m) in enumerate(zip(real_out["steps"], model_out["steps"])):
                    if json.dumps(r, sort_keys=True) != json.dumps(m, sort_keys=True):
                        return {"real": {"step": i, "op": case["args"]["ops"][i], "got": r}, "model": {"step": i, "got": m}}
            return {"real": real_out, "model": model_out}
        return None

    # ---- the property itself, on the real output
    def oracle(self, case, real_out):
        a = case["args"]
        if case["op"] == "trace":
            f = FORMATS[a["kind"]]
            before = copy.deepcopy(a.get("init", {}))
            filed = {}          # (variant, arch) -> records the accepted ExtraFiles.add calls put there, in order
            if a["kind"] == "extra_files":
                for v_, d_ in before.items():
                    for a_, l_ in d_.items():
                        filed[(v_, a_)] = list(l_)
            for i, (op, st) in enumerate(zip(a["ops"], real_out["steps"])):
                if "twin_differs" in st:
                    return {"kind": "twin-differs", "required": "two objects given the same calls hold the same mapping",
                            "observed": {"step": i, "call": dict((k, v) for k, v in op.items() if k != "expect"), "kind": "twin-differs",
                                         "detail": {"this": st["state"], "twin": st["twin_differs"]}}}
                if op.get("call", "add") in mc.READONLY:
                    bad = self.readonly_step(before, st["state"], op, st["out"], filed)
                else:
                    bad = f.oracle_step(before, st["state"], op, st["out"])
                    if a["kind"] == "extra_files" and "ok" in st["out"]:
                        filed.setdefault((op["variant"], op["arch"]), []).append(
                            {"file": op["path"], "size": op["size"], "checksums": mc.enc(op["checksums"])})
                if bad is not None:
                    bad["observed"] = {"step": i, "call": dict((k, v) for k, v in op.items() if k != "expect"), "kind": bad["kind"],
                                       "why": op.get("why"), "format": a["kind"], "detail": bad["observed"]}
                    return bad
                if not mc.json_closed(st["state"]) or "$tuple" in json.dumps(st["state"]) or "$other" in json.dumps(st["state"]):
                    return {"kind": "not-json-closed", "observed": {"step": i, "state": st["state"]},
                            "required": "the mapping holds only dict/list/str/int/None values with string keys"}
                before = st["state"]
            return None
        if case["op"] == "falsy":
            out = real_out["out"]
            if "err" in out:
                if out["err"] not in ("ValueError", "TypeError"):
                    return {"kind": "wrong-exception", "observed": {"err": out["err"], "field": a["field"], "value": a["value"], "format": a["kind"]},
                            "required": "a refused call raises ValueError or TypeError"}
                if real_out["after"] != real_out["before"]:
                    return {"kind": "refusal-changed-state", "observed": {"before": real_out["before"], "after": real_out["after"]},
                            "required": "a refused call changes nothing"}
            elif a["field"] == "sigkey" and isinstance(a["value"], str):
                want = a["value"].lower()
                got = sorted(set(r.get("sigkey") for v_ in real_out["after"].values() for a_ in v_.values() for s_ in a_.values() for r in s_.values()))
                if want not in got:
                    return {"kind": "frame-or-content", "observed": got, "required": "signing key stored lower-cased: %r" % want}
            return None
        if case["op"] in ("check_nevra", "check_uid"):
            if "err" in real_out and real_out["err"] not in ("ValueError", "TypeError"):
                return {"kind": "wrong-exception", "observed": real_out["err"], "required": "ValueError or TypeError"}
            if a.get("expect") is not None and real_out != {"ok": a["expect"]}:
                return {"kind": "wrong-key", "observed": real_out, "required": {"ok": a["expect"]}}
            return None
        if case["op"] == "relative_to":
            want = mc.rel_spec(a["path"], a["root"])
            if real_out != {"ok": want}:
                return {"kind": "relative", "observed": real_out, "required": {"ok": want}}
            return None
        if case["op"] == "dump_for_tree":
            # the records the CALLS put under this variant/arch (not what the object happens to hold)
            mine = [a["ops"][i] for i in real_out.get("accepted", []) if a["ops"][i]["variant"] == a["variant"] and a["ops"][i]["arch"] == a["arch"]]
            items = [{"file": op["path"], "size": op["size"], "checksums": op["checksums"]} for op in mine] if mine else None
            if items is None:
                if real_out.get("err") != "KeyError":
                    return {"kind": "tree-missing", "observed": real_out.get("err", "ok"), "required": "KeyError for an unknown variant/arch"}
                return None
            if "err" in real_out:
                return {"kind": "tree-error", "observed": real_out["err"], "required": "dump succeeds"}
            try:
                doc = json.loads(real_out["ok"])
            except ValueError:
                return {"kind": "tree-json", "observed": real_out["ok"][:200], "required": "JSON text"}
            want = {"header": {"version": "1.0"},
                    "data": [{"file": mc.rel_spec(it["file"], a["basepath"]), "size": it["size"], "checksums": it["checksums"]} for it in items]}
            if doc != want:
                return {"kind": "tree-content", "observed": doc, "required": want}
            return None
        return None

    def readonly_step(self, before, after, op, out, filed):
        """a read-only call: the WHOLE mapping is what it was, and what it returned is what the adds so far determine"""
        call = op["call"]
        if after != before:
            return {"kind": "readonly-changed-state", "observed": {"before": before, "after": after},
                    "required": "%s leaves the manifest unchanged" % call}
        if call == "dump_for_tree":
            items = filed.get((op["variant"], op["arch"]))
            if items is None:
                if out.get("err") != "KeyError":
                    return {"kind": "tree-missing", "observed": out.get("err", "ok"), "required": "KeyError for a variant/arch without files"}
                return None
            if "err" in out:
                return {"kind": "tree-error", "observed": out["err"], "required": "the export succeeds"}
            try:
                doc = json.loads(out["ok"])
            except ValueError:
                return {"kind": "tree-json", "observed": out["ok"][:200], "required": "JSON text"}
            want = {"header": {"version": "1.0"},
                    "data": [{"file": mc.rel_spec(it["file"], op["basepath"]), "size": it["size"], "checksums": it["checksums"]} for it in items]}
            if doc != want:
                return {"kind": "tree-content", "observed": doc, "required": want}
        elif call == "getitem":
            if isinstance(before, dict) and op["variant"] in before:
                if out != {"ok": before[op["variant"]]}:
                    return {"kind": "getitem", "observed": out, "required": {"ok": before[op["variant"]]}}
            elif out.get("err") != "KeyError":
                return {"kind": "getitem", "observed": out, "required": "KeyError"}
        return None

    def nontrivial(self, case, real_out):
        if case["op"] == "trace":
            return any("ok" in s["out"] for s in real_out["steps"]) or len(real_out["steps"]) > 0
        return True

    def stats(self, case, real_out, dist):
        a = case["args"]
        if case["op"] == "trace":
            d = dist.setdefault("trace:" + a["kind"], {"histories": 0, "calls": 0, "accepted": 0, "refused": {}, "why": {}, "max_len": 0})
            d["histories"] += 1
            d["max_len"] = max(d["max_len"], len(a["ops"]))
            for op, st in zip(a["ops"], real_out["steps"]):
                d["calls"] += 1
                if op.get("call", "add") in mc.READONLY:
                    w = op.get("why", op["call"])
                    d["why"][w] = d["why"].get(w, 0) + 1
                    if op["call"] == "dump_for_tree" and "ok" in st["out"]:
                        try:
                            stripped = any(x["file"] != y["file"] for x, y in zip(json.loads(st["out"]["ok"])["data"],
                                                                                  st["state"].get(op["variant"], {}).get(op["arch"], [])))
                        except Exception:
                            stripped = False
                        d["exports_that_strip"] = d.get("exports_that_strip", 0) + (1 if stripped else 0)
                    continue
                w = op.get("why", "?").split(":")[0]
                d["why"][w] = d["why"].get(w, 0) + 1
                if "ok" in st["out"]:
                    d["accepted"] += 1
                else:
                    d["refused"][st["out"]["err"]] = d["refused"].get(st["out"]["err"], 0) + 1
        elif case["op"] == "falsy":
            d = dist.setdefault("falsy", {"n": 0, "outcomes": {}})
            d["n"] += 1
            o = real_out["out"].get("err", "accepted")
            d["outcomes"][o] = d["outcomes"].get(o, 0) + 1
        elif case["op"] in ("check_nevra", "check_uid"):
            d = dist.setdefault(case["op"], {"n": 0, "ok": 0})
            d["n"] += 1
            d["ok"] += 1 if "ok" in real_out else 0
        elif case["op"] == "trace_init":
            d = dist.setdefault("trace_init", {"histories": 0, "outcomes": {}})
            d["histories"] += 1
            for st in real_out["steps"]:
                o = st["out"].get("err", "ok")
                d["outcomes"][o] = d["outcomes"].get(o, 0) + 1
        else:
            d = dist.setdefault(case["op"], {"n": 0, "stripped": 0, "err": 0, "base_reoccurs_after_strip": 0})
            d["n"] += 1
            if case["op"] == "relative_to" and real_out.get("ok") != a["path"] and (a["root"].rstrip("/") + "/") in (real_out.get("ok") or ""):
                d["base_reoccurs_after_strip"] += 1
            if case["op"] == "relative_to" and real_out.get("ok") != a["path"]:
                d["stripped"] += 1
            if "err" in real_out:
                d["err"] += 1

    def shrink_candidates(self, case):
        a = case["args"]
        out = []
        if case["op"] in ("trace", "dump_for_tree"):
            ops = a["ops"]
            for i in range(len(ops)):
                c = copy.deepcopy(case)
                del c["args"]["ops"][i]
                if c["args"]["ops"] or case["op"] == "trace":
                    out.append(c)
        return out


PROP = C12()

MANIFEST = dict(
    technique="Lean 4 proof over an executable state-machine model of Rpms.add / Modules.add / ExtraFiles.add that INTERPRETS the "
              "statement list of each method regenerated from the source on every run (refusals by test and exception class, in source "
              "order, then the chain of setdefault calls; tools/gen_builders.py) + step-by-step differential correspondence with the real objects + per-call "
              "frame/content/refusal oracle on the real mapping",
    text="Theorems (any mapping, any arguments, any history): C12_{rpms,modules,extra}_history (after ANY history of calls a further "
         "call is either refused - ValueError/TypeError exactly when a precondition check fails, identical mapping - or accepted, and then "
         "the addressed [variant][arch][key] entry holds exactly the documented record and every lookup path that leaves it reads what it "
         "read before); _refusal for every mapping (also ill-shaped loaded ones: the chain of setdefault calls cannot fail half-way); "
         "_refuses (each listed precondition => ValueError/TypeError); _plan (canonical N-E:V-R.A of the source package / canonical UID, "
         "lower-cased key); C12_relative (exact characterisation of _relative_to: strips root.rstrip('/')+'/' only, textual prefixes "
         "kept); C12_scripts (the generated statement lists are the documented ones: removing, adding or reordering a refusal changes the "
         "model and breaks this); C12_empty_path_refused (F30 repaired: all three builders); C12_dump_for_tree (one entry per stored record, base stripped, KeyError otherwise); witness for the known finding F31.",
    note="The NEVRA / UID parsers are the generated regexes run by the engine model (tie G); str.lower() is ASCII-only in the model.",
    ref="7/C12")
