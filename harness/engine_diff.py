"""Differential validation of the regex ENGINE MODEL (lean/ProductMD/Model/Regex.lean) against CPython's `re` on random
expressions of the modelled fragment (not only on the library's own patterns): classes, concatenation, alternation,
greedy star/plus/optional with non-nullable bodies, capture groups, `^` in leading position, `$`.
Compared: acceptance of `re.match` and every capture group."""
import re


def gen_re(rng, depth=0):
    """-> AST without group numbers: ("cls", ranges, neg) | ("cat",a,b) | ("alt",a,b) | ("star",a) | ("grp",a) | "eol" | "eps" """
    r = rng.random()
    if depth >= 4 or r < 0.30:
        k = rng.random()
        if k < 0.5:
            c = rng.choice("ab-.1")
            return ("cls", [[ord(c), ord(c)]], False)
        if k < 0.7:
            return ("cls", [[ord("a"), ord("c")], [ord("0"), ord("2")]], rng.random() < 0.2)
        if k < 0.8:
            return ("cls", [[10, 10]], True)                    # `.`
        if k < 0.9:
            return ("cls", [[ord("-"), ord("-")]], True)          # [^-]
        return "eol" if rng.random() < 0.5 else "eps"
    if r < 0.55:
        return ("cat", gen_re(rng, depth + 1), gen_re(rng, depth + 1))
    if r < 0.70:
        return ("alt", gen_re(rng, depth + 1), gen_re(rng, depth + 1))
    if r < 0.85:
        body = gen_re(rng, depth + 1)
        for _ in range(5):
            if not nullable(body):
                break
            body = gen_re(rng, depth + 1)
        if nullable(body):
            body = ("cls", [[ord("a"), ord("a")]], False)
        return ("star", body)
    return ("grp", gen_re(rng, depth + 1))


def nullable(a):
    if a in ("eps", "eol", "bol"):
        return True
    t = a[0]
    if t == "cls":
        return False
    if t == "cat":
        return nullable(a[1]) and nullable(a[2])
    if t == "alt":
        return nullable(a[1]) or nullable(a[2])
    if t == "star":
        return True
    if t == "grp":
        return nullable(a[1])
    return True


def esc_cls_char(o):
    c = chr(o)
    if c in "\\]^-":
        return "\\" + c
    if o == 10:
        return "\\n"
    return c


def render(a, counter):
    """-> (python pattern text, JSON AST with group numbers in CPython's numbering)"""
    if a == "eps":
        return "(?:)", "eps"
    if a == "eol":
        return "$", "eol"
    t = a[0]
    if t == "cls":
        _, ranges, neg = a
        body = "".join(esc_cls_char(lo) if lo == hi else "%s-%s" % (esc_cls_char(lo), esc_cls_char(hi)) for lo, hi in ranges)
        return "[%s%s]" % ("^" if neg else "", body), ["cls", ranges, neg]
    if t == "cat":
        p1, j1 = render(a[1], counter); p2, j2 = render(a[2], counter)
        return p1 + p2, ["cat", j1, j2]
    if t == "alt":
        p1, j1 = render(a[1], counter); p2, j2 = render(a[2], counter)
        return "(?:%s|%s)" % (p1, p2), ["alt", j1, j2]
    if t == "star":
        p, j = render(a[1], counter)
        return "(?:%s)*" % p, ["star", j]
    if t == "grp":
        counter[0] += 1
        n = counter[0]
        p, j = render(a[1], counter)
        return "(%s)" % p, ["grp", n, j]
    raise ValueError(a)


def cases(rng, n_patterns, n_strings):
    out = []
    for _ in range(n_patterns):
        ast = gen_re(rng)
        counter = [0]
        pat, js = render(ast, counter)
        if rng.random() < 0.5:
            pat, js = "^" + pat, ["cat", "bol", js]
        try:
            rx = re.compile(pat)
        except re.error:
            continue
        for _ in range(n_strings):
            s = "".join(rng.choice("ab-.1c\n0") for _ in range(rng.randint(0, 7)))
            mm = rx.match(s)
            real = None if mm is None else dict((str(i), mm.group(i)) for i in range(1, rx.groups + 1) if mm.group(i) is not None)
            out.append({"pattern": pat, "re": js, "s": s, "real": real})
    return out


def model_caps(o):
    if o is None:
        return None
    d = {}
    for g, txt in o:
        d.setdefault(str(g), txt)
    return d


def run(driver, rng, n_patterns=300, n_strings=12):
    cs = cases(rng, n_patterns, n_strings)
    outs = driver.call([{"op": "re_match_ast", "args": {"re": c["re"], "s": c["s"]}} for c in cs])
    bad = []
    for c, o in zip(cs, outs):
        if model_caps(o) != c["real"]:
            bad.append({"pattern": c["pattern"], "s": c["s"], "real": c["real"], "model": model_caps(o)})
    return len(cs), bad
