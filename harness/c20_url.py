"""C20, remote locations: the URL stream of harness/props/c20.py.

The real side runs the REAL library in-process with `productmd.common._urlopen` replaced by a fetcher that serves an
in-memory map {url -> bytes} with per-URL fault sequences (URLError, HTTPError 404, socket timeout, http.client
exception, ValueError) and hands out genuine response objects:

  http / https : a real `http.client.HTTPResponse` parsed from a socket-like BytesIO (so `parse_file` takes its
                 HTTPResponse branch: codecs utf-8 reader);
  ftp          : a real `urllib.response.addinfourl` over a non-seekable binary reader (what urllib returns for ftp);
  text         : a plain text file object (the generic branch).

`fetcher: "real"` leaves `_urlopen` alone (only logged): used with URLs on 127.0.0.1:9 (connection refused, no network
needed) and with a loop-back `http.server` that serves a real directory tree (`fetcher: "httpd"`).

Every fetch is logged with "had the library closed the response when the operation returned".
"""
import http.client, http.server, io, os, shutil, socket, tempfile, threading, urllib.error, urllib.request, urllib.response, email.message
import checklib

KINDS = ["info", "images", "rpms", "modules"]
FILES = {"info": ["composeinfo.json"], "images": ["images.json", "image-manifest.json"], "rpms": ["rpms.json", "rpm-manifest.json"],
         "modules": ["modules.json"]}
KIND_OF_FILE = dict((f, k) for k, fs in FILES.items() for f in fs)
CLS_NAMES = {"info": "ComposeInfo", "images": "Images", "rpms": "Rpms", "modules": "Modules"}
FAULTS = {"404": "URLError", "refused": "URLError", "timeout": "Other", "disconnect": "Other", "invalid": "ValueError"}
URL_PREFIXES = ("http://", "https://", "ftp://")          # the documented remote schemes (oracle side; the model reads the source)


def raise_fault(kind, url):
    if kind == "404":
        raise urllib.error.HTTPError(url, 404, "Not Found", email.message.Message(), io.BytesIO(b""))
    if kind == "refused":
        raise urllib.error.URLError(ConnectionRefusedError(111, "Connection refused"))
    if kind == "timeout":
        raise socket.timeout("The read operation timed out")
    if kind == "disconnect":
        raise http.client.RemoteDisconnected("Remote end closed connection without response")
    if kind == "invalid":
        raise ValueError("Invalid IPv6 URL")
    raise AssertionError(kind)


class _Sock(object):
    def __init__(self, data):
        self.f = io.BytesIO(data)

    def makefile(self, *a, **k):
        return self.f


class Resp(http.client.HTTPResponse):
    verif_closed = False

    def close(self):
        self.verif_closed = True
        http.client.HTTPResponse.close(self)


class _Raw(io.RawIOBase):
    """non-seekable binary stream (a socket file)"""
    def __init__(self, data):
        self.b = io.BytesIO(data)

    def readable(self):
        return True

    def readinto(self, buf):
        return self.b.readinto(buf)


def make_response(kind, data, url):
    """-> (object handed to the library, function telling whether the library closed it)"""
    if kind == "http":
        r = Resp(_Sock(b"HTTP/1.1 200 OK\r\nContent-Type: application/json\r\nContent-Length: %d\r\n\r\n" % len(data) + data))
        r.begin()
        return r, (lambda: r.verif_closed)
    if kind == "ftp":
        fp = io.BufferedReader(_Raw(data))
        r = urllib.response.addinfourl(fp, email.message.Message(), url)
        return r, (lambda: fp.closed)
    f = io.TextIOWrapper(io.BytesIO(data), encoding="utf-8")
    return f, (lambda: f.closed)


def resp_kind(a):
    return a.get("resp") or {"http": "http", "https": "http", "ftp": "ftp"}[a["scheme"]]


def join(given, rel):
    """the oracle's own URL join: one slash between the location and the relative name"""
    return given + ("" if given.endswith("/") else "/") + rel


def served_map(a, content_bytes):
    base = a["base"]
    out = {}
    for sub, files in sorted(a["layouts"].items()):
        for name, what in sorted(files.items()):
            rel = (sub + "/" if sub else "") + "metadata/" + name
            out[base + "/" + rel] = content_bytes(KIND_OF_FILE[name], what, "%s/%s/%s" % (a["seed"], sub, name))
    for rel in a.get("index_pages") or []:            # a web server answers a directory URL with an index page
        out[base + "/" + rel] = b"<html><body>Index of /" + rel.encode() + b"</body></html>"
    return out


def status_of(a, served, url, i):
    """what the i-th fetch of `url` gives: 'ok' or a fault name; independent of the library"""
    base = a["base"]
    fl = None
    if url.startswith(base + "/"):
        fl = (a.get("faults") or {}).get(url[len(base) + 1:])
    f = fl[min(i, len(fl) - 1)] if fl else "ok"
    if f == "ok":
        return "ok" if url in served else "404"
    return f


def errname(e):
    for cls, n in ((ValueError, "ValueError"), (KeyError, "KeyError"), (TypeError, "TypeError"), (AttributeError, "AttributeError"),
                   (IndexError, "IndexError"), (RuntimeError, "RuntimeError")):
        if isinstance(e, cls):
            return n
    return "Other"


def fetch_errname(e):
    if isinstance(e, urllib.error.URLError):
        return "URLError"
    return errname(e)


class Httpd(object):
    """loop-back static file server over `root`, logging the request paths"""
    def __init__(self, root):
        log = self.log = []

        class H(http.server.SimpleHTTPRequestHandler):
            def __init__(self, *a, **k):
                http.server.SimpleHTTPRequestHandler.__init__(self, *a, directory=root, **k)

            def log_message(self, *a):
                pass

            def do_GET(self):
                log.append(self.path)
                http.server.SimpleHTTPRequestHandler.do_GET(self)
        self.srv = http.server.ThreadingHTTPServer(("127.0.0.1", 0), H)
        self.port = self.srv.server_address[1]
        self.t = threading.Thread(target=self.srv.serve_forever, kwargs={"poll_interval": 0.01}, daemon=True)
        self.t.start()

    def stop(self):
        self.srv.shutdown()
        self.srv.server_close()


def real_url(case, content_bytes, cls_of, build_tree):
    checklib.use_repo()
    import productmd.compose, productmd.common as C
    a = dict(case["args"])
    fetcher = a.get("fetcher", "fake")
    tmp = httpd = None
    cwd = os.getcwd()
    try:
        if fetcher == "httpd":
            tmp = tempfile.mkdtemp(prefix="c20u-")
            build_tree(tmp, a["layouts"], a["seed"], "P")
            try:
                httpd = Httpd(tmp)
            except OSError as e:
                return {"skipped": "no loop-back server: %s" % e}
            a["base"] = "http://127.0.0.1:%d/P" % httpd.port
        served = served_map(a, content_bytes)
        given = a["base"] + a.get("suffix", "/" if a.get("slash") else "")
        rk = resp_kind(a)
        if a.get("shadow"):
            # a LOCAL directory tree whose relative path is spelled like the URL (os.path normalises `//`), with a legacy
            # sub-directory that has metadata/: a listing of it must never be taken for the remote location
            tmp = tmp or tempfile.mkdtemp(prefix="c20u-")
            loc = os.path.join(tmp, a["base"].replace("://", ":/"), "1.0", "metadata")
            os.makedirs(loc)
            with open(os.path.join(loc, "composeinfo.json"), "wb") as f:
                f.write(content_bytes("info", "valid", "shadow"))
            os.chdir(tmp)
        flog = []            # [url, closed?()] per fetch, in order
        counts = {}
        orig_urlopen = C._urlopen

        def fake(url):
            i = counts.get(url, 0)
            counts[url] = i + 1
            st = status_of(a, served, url, i)
            if st != "ok":
                flog.append([url, lambda: False, st])
                raise_fault(st, url)
            r, closed = make_response(rk, served[url], url)
            flog.append([url, closed, "ok", r])          # the reference keeps the response alive: no close by garbage collection
            return r

        def logged_real(url):
            try:
                r = orig_urlopen(url)
            except Exception as e:
                flog.append([url, lambda: False, fetch_errname(e)])
                raise
            st = {"c": False}
            oc = r.close

            def close():
                st["c"] = True
                oc()
            r.close = close
            flog.append([url, lambda: st["c"], "ok", r])
            return r
        out = {"given": given, "fetcher": fetcher}
        # ---- reference data, taken without the library's URL handling
        #  parses: what `cls().load(<response object of the same kind>)` gives (the already-open-file-object path) - model input
        #  direct: what loading the same bytes from a local PATH gives - the oracle's reference ("loading that file directly")
        parses, direct = [], []
        dtmp = tempfile.mkdtemp(prefix="c20d-")
        try:
            for url, data in sorted(served.items()):
                if url.rsplit("/", 1)[1] not in KIND_OF_FILE:
                    continue
                k = KIND_OF_FILE[url.rsplit("/", 1)[1]]
                for store, how in ((parses, "obj"), (direct, "path")):
                    try:
                        o = cls_of(k)()
                        if how == "obj":
                            r, _ = make_response(rk, data, url)
                            o.load(r)
                        else:
                            fp = os.path.join(dtmp, "f.json")
                            with open(fp, "wb") as f:
                                f.write(data)
                            o.load(fp)
                        store.append([k, url, {"ok": o.dumps()}])
                    except Exception as e:
                        store.append([k, url, {"err": errname(e)}])
        finally:
            shutil.rmtree(dtmp, ignore_errors=True)
        out["parses"], out["direct"] = parses, direct
        # ---- answers of the net, for the model: per URL the outcome of each successive fetch
        cand_rel = ["compose/metadata/composeinfo.json"] + ["%smetadata/%s" % (p, n) for p in ("", "compose/") for n in sorted(KIND_OF_FILE)]
        urls = set(served) | set(join(given, r) for r in cand_rel) | set(a["base"] + "/" + r for r in (a.get("faults") or {}))
        answers = []
        if fetcher == "fake":
            for u in sorted(urls):
                fl = (a.get("faults") or {}).get(u[len(a["base"]) + 1:]) if u.startswith(a["base"] + "/") else None
                seq = []
                for i in range(len(fl) if fl else 1):
                    st = status_of(a, served, u, i)
                    seq.append({"ok": u} if st == "ok" else {"err": FAULTS[st]})
                answers.append([u, seq])
        else:
            for u in sorted(urls):            # ask urllib itself, not the library
                try:
                    r = urllib.request.urlopen(u, timeout=5)
                    r.close()
                    answers.append([u, [{"ok": u}]])
                except Exception as e:
                    answers.append([u, [{"err": fetch_errname(e)}]])
            if httpd is not None:
                del httpd.log[:]
        out["answers"] = answers
        loads = []
        orig_load = C.MetadataBase.load

        def logged_load(self, f):
            loads.append([type(self).__name__, f])
            return orig_load(self, f)
        C.MetadataBase.load = logged_load
        C._urlopen = fake if fetcher == "fake" else logged_real
        try:
            snap = lambda frm: [[x[0], bool(x[1]())] for x in flog[frm:]]
            try:
                comp = productmd.compose.Compose(given)
                out["compose_path"] = {"ok": comp.compose_path}
            except Exception as e:
                out["compose_path"] = {"err": errname(e), "class": type(e).__name__}
                comp = None
            out["init_fetches"] = snap(0)
            results, objs = [], []
            if comp is not None:
                for k in a["accesses"]:
                    b_load, b_f = len(loads), len(flog)
                    try:
                        o = getattr(comp, k)
                        ident = [i for i, x in enumerate(objs) if x is o]
                        if not ident:
                            objs.append(o)
                            ident = [len(objs) - 1]
                        results.append({"ok": {"ident": ident[0], "text": o.dumps(), "loaded_now": [p for _, p in loads[b_load:]], "fetched_now": snap(b_f)}})
                    except Exception as e:
                        r = {"err": errname(e), "class": type(e).__name__, "fetched_now": snap(b_f)}
                        if isinstance(e, RuntimeError):
                            msg = str(e)
                            if msg.startswith("Failed to load metadata from "):
                                r["named"] = msg[len("Failed to load metadata from "):]
                            elif " can not be deserialized" in msg:
                                r["named"] = msg.split(" can not be deserialized")[0]
                            else:
                                r["named"] = None
                        results.append(r)
            out["results"] = results
            out["loads"] = loads
            out["fetches"] = snap(0)
            if httpd is not None:
                out["server_log"] = list(httpd.log)
        finally:
            C.MetadataBase.load = orig_load
            C._urlopen = orig_urlopen
        if fetcher == "httpd":
            # ports differ from run to run: report everything relative to a fixed name
            port = "127.0.0.1:%d" % httpd.port
            import json
            out = json.loads(json.dumps(out).replace(port, "127.0.0.1:PORT"))
        return out
    finally:
        os.chdir(cwd)
        if httpd is not None:
            httpd.stop()
        if tmp:
            shutil.rmtree(tmp, ignore_errors=True)


def model_request(case, r):
    if "skipped" in r:
        return []
    return [{"op": "cd_url_run", "args": {"compose_path": r["given"], "answers": r["answers"], "parses": r["parses"],
                                          "accesses": case["args"]["accesses"]}}]


def compare(case, r, m):
    rv = {"compose_path": dict((k, v) for k, v in r["compose_path"].items() if k != "class")}
    mv = {"compose_path": m["compose_path"]}
    if "ok" in r["compose_path"] and "ok" in m["compose_path"]:
        def renum(ids):
            seen = {}
            return [seen.setdefault(i, len(seen)) if i is not None else None for i in ids]
        rres, rid = [], []
        for x in r["results"]:
            if "ok" in x:
                rres.append({"ok": x["ok"]["text"]}); rid.append(x["ok"]["ident"])
            else:
                rres.append(dict((k, v) for k, v in x.items() if k in ("err", "named"))); rid.append(None)
        mres, mid = [], []
        for x in m["results"]:
            if "ok" in x:
                mres.append({"ok": x["ok"]["text"]}); mid.append(x["ok"]["id"])
            else:
                mres.append(x); mid.append(None)
        rv.update(results=rres, idents=renum(rid), loads=r["loads"], fetches=r["fetches"])
        mv.update(results=mres, idents=renum(mid), loads=[[CLS_NAMES.get(k, k), p] for k, p in m["loads"]], fetches=m["fetches"])
    else:
        rv["fetches"] = r["init_fetches"]
        mv["fetches"] = m.get("fetches")
    if rv != mv:
        return {"real": rv, "model": mv}
    return None


def oracle(case, r):
    """the property on the real output alone; stationary nets strictly, changing nets only for caching / error shape"""
    if "skipped" in r:
        return None
    a = case["args"]
    given = r["given"]
    answers = dict((u, seq) for u, seq in r["answers"])
    stationary = all(len(seq) == 1 for seq in answers.values())

    def st(url, i=0):
        seq = answers.get(url)
        if not seq:
            return "URLError"
        x = seq[min(i, len(seq) - 1)]
        return "ok" if "ok" in x else x["err"]
    remote = given.startswith(URL_PREFIXES)
    if not remote:
        return None
    probe = join(join(given, "compose"), "metadata/composeinfo.json")
    # 1. constructor
    if "err" in r["compose_path"]:
        s = st(probe)
        if s not in ("ok", "URLError") and r["compose_path"]["err"] == s and a.get("fetcher", "fake") != "real":
            # a fetch failure that does not say "absent" (timeout, protocol error) must not be taken for "absent": it propagates
            return None
        # (with the real urllib and nothing listening there is no transient failure: an exception here is urllib / http.client
        #  REJECTING the spelling of the URL before any network activity - the location cannot be fetched, i.e. it is missing)
        return {"observed": dict(r["compose_path"], probe=probe, probe_fetch=s), "kind": "constructor-raised",
                "required": "Compose(url) resolves; a missing compose surfaces as RuntimeError naming the location on access"}
    resolved = r["compose_path"]["ok"]
    s = st(probe)
    if s == "ok":
        allowed = [join(given, "compose")]
    elif s == "URLError":
        allowed = [given]                      # no listing over URLs: a legacy sub-directory is not discoverable
    else:
        return {"observed": {"compose_path": resolved, "probe": probe, "probe_fetch": s}, "kind": "fetch-failure-taken-for-absent",
                "required": "a fetch failure other than URLError (timeout, protocol error) propagates; only URLError means absent"}
    if resolved not in allowed:
        return {"observed": {"compose_path": resolved}, "required": {"one_of": allowed}, "kind": "wrong-layout"}
    if not stationary:
        first_ok = {}
        for k, res in zip(a["accesses"], r["results"]):
            if k in first_ok and ("ok" not in res or res["ok"]["ident"] != first_ok[k] or res["ok"]["fetched_now"]):
                return {"observed": {"access": k, "result": res}, "required": "loaded once and then reused: the same object, no further fetch", "kind": "not-cached"}
            if "ok" in res:
                first_ok.setdefault(k, res["ok"]["ident"])
        return None
    # 2. accessors
    direct = dict(((k, u), o) for k, u, o in r["direct"])
    first_ok = {}
    for k, res in zip(a["accesses"], r["results"]):
        if k in first_ok:
            if "ok" not in res or res["ok"]["ident"] != first_ok[k] or res["ok"]["loaded_now"] or res["ok"]["fetched_now"]:
                return {"observed": {"access": k, "result": res if "ok" not in res else {"identity": res["ok"]["ident"], "first": first_ok[k],
                                                                                        "loaded_again": res["ok"]["loaded_now"], "fetched_again": res["ok"]["fetched_now"]}},
                        "required": "loaded once and then reused: the same object on every later access (is), no further load, no further fetch", "kind": "not-cached"}
            continue
        chosen = failing = None
        for n in FILES[k]:
            u = join(resolved, "metadata/" + n)
            s = st(u)
            if s == "ok":
                chosen = u
                break
            if s != "URLError":
                failing = (u, s)
                break
        if failing:
            if res.get("err") != failing[1] or res.get("err") == "RuntimeError":
                return {"observed": {"access": k, "result": res, "url": failing[0], "fetch": failing[1]}, "kind": "fetch-failure-taken-for-absent",
                        "required": "a fetch failure other than URLError propagates (the next candidate name is not silently used, the file is not reported missing)"}
            continue
        if chosen is None:
            want = {"err": "RuntimeError", "named": resolved}
            if dict((x, y) for x, y in res.items() if x in ("err", "named")) != want:
                return {"observed": {"access": k, "result": res}, "required": want, "kind": "missing-not-runtime-error"}
            continue
        ref = direct.get((k, chosen))
        if ref is None:
            continue
        if "ok" in ref:
            if "ok" not in res or res["ok"]["text"] != ref["ok"]:
                return {"observed": {"access": k, "result": res if "ok" not in res else {"text_differs_from": chosen, "loaded": res["ok"]["loaded_now"]}},
                        "required": {"equals_direct_load_of": chosen}, "kind": "wrong-file-or-content"}
            first_ok[k] = res["ok"]["ident"]
            if res["ok"]["loaded_now"] != [chosen]:
                return {"observed": {"access": k, "loads": res["ok"]["loaded_now"]}, "required": {"loaded_once": chosen}, "kind": "loaded-again"}
            mine = [f for f in res["ok"]["fetched_now"] if f[0] == chosen]
            if len(mine) != 2 or not all(c for _, c in mine):
                return {"observed": {"access": k, "fetches": res["ok"]["fetched_now"]}, "kind": "fetch-discipline",
                        "required": "loaded once: the chosen URL is fetched once for the existence probe and once for the load, and every response is closed when the accessor returns"}
        else:
            want = {"err": "RuntimeError", "named": chosen}
            if dict((x, y) for x, y in res.items() if x in ("err", "named")) != want:
                return {"observed": {"access": k, "result": res, "file": chosen, "direct_load": ref}, "required": want, "kind": "undecodable-not-runtime-error"}
    return None


# -------------------------------------------------------------------------------------------------- load3: one document, three ways in
def real_load3(case, content_bytes, cls_of):
    """`MetadataBase.load` with an already-open file object, a path and a URL (each response kind)"""
    checklib.use_repo()
    import productmd.common as C
    a = case["args"]
    k = a["kind"]
    data = content_bytes(k, a["what"], "load3-%s" % a["seed"])
    out = {}
    d = tempfile.mkdtemp(prefix="c20l-")
    orig = C._urlopen
    try:
        fp = os.path.join(d, "doc.json")
        with open(fp, "wb") as f:
            f.write(data)

        def run(how):
            o = cls_of(k)()
            closed = None
            if how == "path":
                o.load(fp)
            elif how == "fileobj":
                with open(fp, "r") as f:
                    o.load(f)
                    closed = f.closed          # a caller's file object is left open
            else:
                scheme, rk = how.split(":")
                got = []

                def fake(url):
                    r, c = make_response(rk, data, url)
                    got.append(c)
                    return r
                C._urlopen = fake
                try:
                    o.load("%s://mirror.example/c/metadata/doc.json" % scheme)
                finally:
                    C._urlopen = orig
                closed = [bool(c()) for c in got]
            return {"text": o.dumps(), "closed": closed}
        for how in ("path", "fileobj", "http:http", "https:http", "ftp:ftp", "http:text"):
            try:
                out[how] = {"ok": run(how)}
            except Exception as e:
                out[how] = {"err": errname(e)}
    finally:
        C._urlopen = orig
        shutil.rmtree(d, ignore_errors=True)
    return out


def oracle_load3(case, r):
    ref = r["path"]
    for how, got in sorted(r.items()):
        a = {"ok": got["ok"]["text"]} if "ok" in got else got
        b = {"ok": ref["ok"]["text"]} if "ok" in ref else ref
        if a != b:
            return {"observed": {"via": how, "result": a if "err" in a else "different document", "by_path": b if "err" in b else "ok"},
                    "required": "the same document loads to the same metadata (or fails with the same exception class) by path, file object and URL",
                    "kind": "load-differs-by-source"}
        if "ok" in got and ":" in how and got["ok"]["closed"] != [True]:
            return {"observed": {"via": how, "responses_closed": got["ok"]["closed"]}, "required": "one fetch, response closed after a successful load",
                    "kind": "fetch-discipline"}
        if "ok" in got and how == "fileobj" and got["ok"]["closed"] is not False:
            return {"observed": {"via": how, "closed": got["ok"]["closed"]}, "required": "a file object passed in by the caller is not closed", "kind": "closed-callers-file"}
    return None
