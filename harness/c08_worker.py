"""
C08 worker: one interpreter process with ONE hash seed (PYTHONHASHSEED is set by the parent in the environment).

Line protocol on stdin/stdout, one JSON object per line:
  request  {"fmt": "composeinfo"|"images"|"treeinfo"|"discinfo"|"rpms"|"modules"|"extra_files",
            "specs": [spec, ...]   the SAME content, each spec lists the unordered parts in another construction order,
            "ndumps": n, "mv": main_variant (treeinfo)}
  response {"hashseed": .., "runs": [{"sha": [sha1 of dump 1, dump 2, ..], "text": text of the first dump | None,
                                      "err": exception class | None, "other": {dump index: text} (dumps whose bytes differ from
                                      the first one of this run), "before": state snapshot, "after": state snapshot}, ...]}
Every object is built through the shared real-side adapter (harness/formats/<fmt>.py) from the library in $PRODUCTMD_REPO.
"""
import hashlib, json, os, sys

HERE = os.path.dirname(os.path.abspath(__file__))
sys.path.insert(0, HERE)
import checklib  # noqa: E402


def sha(t):
    return hashlib.sha1(t.encode("utf-8", "surrogatepass")).hexdigest()


def adapters():
    import importlib
    return dict((n, importlib.import_module("formats." + n)) for n in ("composeinfo", "images", "treeinfo", "discinfo"))


def state_of(fmt, obj):
    """what repeated dumps may change: the mutable bits next to the content"""
    if fmt == "composeinfo":
        out = {"version": obj.header.version, "layered": {}}

        def rec(container):
            for k, v in container.variants.items():
                out["layered"][v.uid] = [v.type, v.release.is_layered, v.release.name]
                rec(v)
        rec(obj.variants)
        return out
    if fmt in ("images", "rpms", "modules", "extra_files"):
        return {"version": obj.header.version}
    if fmt == "treeinfo":
        return {"version": obj.header.version}
    return {}


def build(F, fmt, spec):
    if fmt == "images":
        return F[fmt].build(spec)[0]
    if fmt in F:
        return F[fmt].build(spec)
    import c08_manifests
    return c08_manifests.build(fmt, spec)


def dump(F, fmt, obj, mv):
    if fmt == "treeinfo":
        return F[fmt].dumps(obj, mv)
    if fmt == "discinfo":
        return F[fmt].dumps(obj)
    return obj.dumps()


def run(F, req):
    fmt, n, mv = req["fmt"], int(req.get("ndumps", 1)), req.get("mv")
    runs = []
    for spec in req["specs"]:
        r = {"sha": [], "text": None, "err": None, "other": {}}
        try:
            obj = build(F, fmt, spec)
            r["before"] = state_of(fmt, obj)
            if fmt in ("rpms", "modules", "extra_files"):
                import c08_manifests
                r["content"] = c08_manifests.content_key(fmt, obj)
            for i in range(n):
                t = dump(F, fmt, obj, mv)
                r["sha"].append(sha(t))
                if i == 0:
                    r["text"] = t
                elif r["sha"][i] != r["sha"][0]:
                    r["other"][str(i)] = t
            r["after"] = state_of(fmt, obj)
        except Exception as e:  # noqa
            r["err"] = type(e).__name__
        runs.append(r)
    return {"hashseed": os.environ.get("PYTHONHASHSEED"), "runs": runs}


def main():
    checklib.use_repo()
    F = adapters()
    for line in sys.stdin:
        line = line.strip()
        if not line:
            continue
        req = json.loads(line)
        sys.stdout.write(json.dumps(run(F, req), ensure_ascii=True) + "\n")
        sys.stdout.flush()


if __name__ == "__main__":
    main()
