"""
C08 worker: one interpreter process with ONE hash seed (PYTHONHASHSEED is set by the parent in the environment).

Line protocol on stdin/stdout, one JSON object per line:
  request  {"fmt": "composeinfo"|"images"|"treeinfo"|"discinfo"|"rpms"|"modules"|"extra_files",
            "specs": [spec, ...]   the SAME content, each spec lists the unordered parts in another construction order,
            "ndumps": n, "mv": main_variant (treeinfo)}
  response {"hashseed": .., "runs": [{"sha": [sha1 of dump 1, dump 2, ..], "text": text of the first dump | None,
                                      "err": exception class | None, "other": {dump index: text} (dumps whose bytes differ from
                                      the first one of this run), "before": state snapshot, "after": state snapshot}, ...]}
Every object is built through the shared real-side adapter (harness/formats/<fmt>.py) from the library in $PRODUCTMD_REPO.
"""
import hashlib, json, os, sys

HERE = os.path.dirname(os.path.abspath(__file__))
sys.path.insert(0, HERE)
import checklib  # noqa: E402
checklib.worker_linecov()


def sha(t):
    return hashlib.sha1(t.encode("utf-8", "surrogatepass")).hexdigest()


def adapters():
    import importlib
    return dict((n, importlib.import_module("formats." + n)) for n in ("composeinfo", "images", "treeinfo", "discinfo"))


def _content_sha(fmt, F, obj):
    """every public attribute of the object graph (the adapter's snapshot), without the two things a dump is modelled to change:
    a dump must leave all the rest alone (no normalisation of `final`, nothing cached, nothing rewritten)"""
    try:
        if fmt == "composeinfo":
            snap = F[fmt].snap(obj)
            for v, _ in F[fmt].walk(snap):
                if isinstance(v.get("release"), dict):
                    v["release"].pop("is_layered", None)
        elif fmt in ("images", "treeinfo", "discinfo"):
            snap = F[fmt].snap(obj)
            if isinstance(snap, dict):
                snap.pop("version", None)
                snap.pop("header_version", None)
        else:
            import c08_manifests
            import formats.manifest_common as mc
            snap = mc.snap_manifest(obj, c08_manifests.F(fmt).mapping(obj))
            snap.pop("version", None)
        return hashlib.sha1(json.dumps(checklib.canon(snap), sort_keys=True, default=repr).encode()).hexdigest()
    except Exception as e:  # noqa
        return "snap-failed:" + type(e).__name__


def state_of(fmt, obj, F=None):
    """what repeated dumps may change: the mutable bits next to the content"""
    out = _state_of(fmt, obj)
    if F is not None:
        c = _content_sha(fmt, F, obj)
        if c is not None:
            out["content_sha"] = c
    return out


def _state_of(fmt, obj):
    if fmt == "composeinfo":
        out = {"version": obj.header.version, "layered": {}}

        def rec(container):
            for k, v in container.variants.items():
                out["layered"][v.uid] = [v.type, v.release.is_layered, v.release.name]
                rec(v)
        rec(obj.variants)
        return out
    if fmt in ("images", "rpms", "modules", "extra_files"):
        return {"version": obj.header.version}
    if fmt == "treeinfo":
        return {"version": obj.header.version}
    return {}


def build(F, fmt, spec):
    if fmt == "images":
        return F[fmt].build(spec)[0]
    if fmt in F:
        return F[fmt].build(spec)
    import c08_manifests
    return c08_manifests.build(fmt, spec)


def dump(F, fmt, obj, mv):
    if fmt == "treeinfo":
        return F[fmt].dumps(obj, mv)
    if fmt == "discinfo":
        return F[fmt].dumps(obj)
    return obj.dumps()


ISSUES = []          # public container operations that raised while an object was being rebuilt in another style


def restyle(fmt, obj, seed):
    """the same content through ANOTHER construction style of the public containers: sets / dicts refilled in place in another order
    (`.add`, item assignment, `add_checksum`, `Checksums.add`), an entry removed and added again, an entry added and removed again,
    empty buckets that still exist.  Nothing here changes what the object contains."""
    import random
    rng = random.Random("restyle-%s" % seed)

    def refill_set(s_):
        items = list(s_)
        rng.shuffle(items)
        s_.clear()
        for x in items:
            s_.add(x)

    def refill_dict(d):
        items = list(d.items())
        rng.shuffle(items)
        d.clear()
        for k, v in items:
            d[k] = v
    if fmt == "composeinfo":
        from productmd.composeinfo import Variant

        def rec(container):
            for key in list(container.variants):
                v = container.variants[key]
                refill_set(v.arches)
                for cat in v.paths._fields:
                    refill_dict(getattr(v.paths, cat))
                rec(v)
            keys = list(container.variants)
            if keys and rng.random() < 0.7:
                k = rng.choice(keys)                      # removed through the public container and added again: now last
                v = container.variants[k]
                del container[k]
                if k == v.id:
                    container.add(v)
                else:
                    container.variants[k] = v
        rec(obj.variants)
        tops = [v for v in obj.variants.variants.values() if "-" not in v.uid]
        if tops:
            p = rng.choice(tops)                          # a child added and removed again
            t = Variant(obj)
            t.id, t.uid, t.name, t.type = "Tmp0", p.uid + "-Tmp0", "tmp", "variant"
            t.arches = set(list(p.arches)[:1])
            if "Tmp0" not in p.variants:
                p.add(t)
                del p["Tmp0"]
    elif fmt == "images":
        for v in list(obj.images):
            for a in list(obj.images[v]):
                cell = obj.images[v][a]
                for img in list(cell):
                    cks = list(img.checksums.items())
                    rng.shuffle(cks)
                    img.checksums = {}
                    for k, val in cks:
                        img.add_checksum(None, k, val)
                items = list(cell)
                if items:
                    x = rng.choice(items)
                    cell.discard(x)
                    cell.add(x)
            obj.images[v].setdefault("s390x" if "s390x" not in obj.images[v] else "ia64", set())     # an empty cell that still exists
        obj.images.setdefault("ZZ-empty-variant", {})                                                   # an empty variant bucket
    elif fmt == "treeinfo":
        refill_set(obj.tree.platforms)
        cks = list(obj.checksums.checksums.items())
        rng.shuffle(cks)
        obj.checksums.checksums.clear()
        for path, (typ, val) in cks:
            import os.path
            if os.path.normpath(path) == path and val:
                # the public method (stores a list, not a tuple); only for a non-empty value: a falsy `checksum_value` means "compute it
                # from the file under root_dir", which is another operation
                obj.checksums.add(path, typ, val)
            else:
                obj.checksums.checksums[path] = (typ, val)
        refill_dict(obj.images.images)
        for plat in obj.images.images:
            refill_dict(obj.images.images[plat])

        def rec(container):
            for key in list(container.variants):
                rec(container.variants[key])
            keys = [k for k in container.variants if container.variants[k].id == k]
            if keys and hasattr(container, "uid") and rng.random() < 0.7:
                # `del parent[child]` also drops the checksum of <repository>/repodata/repomd.xml: only children for which that is no entry
                safe = [k for k in keys if container.variants[k].paths.repository is None
                        or container.variants[k].paths.repository + "/repodata/repomd.xml" not in obj.checksums.checksums]
                with_repo = [k for k in safe if container.variants[k].paths.repository is not None]
                without = [k for k in safe if container.variants[k].paths.repository is None]
                pick = with_repo[:1] + (without[:1] if rng.random() < 0.25 else [])
                for k in pick:
                    v = container.variants[k]
                    try:
                        del container[k]
                    except Exception as e:  # noqa
                        ISSUES.append({"fmt": fmt, "op": "del variant[child]", "err": type(e).__name__, "child": v.uid,
                                       "child_repository": v.paths.repository})
                        continue
                    container.add(v)
        rec(obj.variants)
    elif fmt == "discinfo":
        nums = list(obj.disc_numbers)
        obj.disc_numbers = []
        for x in nums:
            obj.disc_numbers.append(x)
    return obj


def run(F, req):
    fmt, n, mv = req["fmt"], int(req.get("ndumps", 1)), req.get("mv")
    runs = []
    styles = req.get("styles") or []
    prebuilt = None
    if req.get("interleave"):
        # all the objects of the case exist side by side before the first one is dumped
        prebuilt = []
        for spec in req["specs"]:
            try:
                prebuilt.append(build(F, fmt, spec))
            except Exception as e:  # noqa
                prebuilt.append(e)
    for si, spec in enumerate(req["specs"]):
        r = {"sha": [], "text": None, "err": None, "other": {}}
        try:
            if prebuilt is not None:
                obj = prebuilt[si]
                if isinstance(obj, Exception):
                    raise obj
            else:
                obj = build(F, fmt, spec)
            if si < len(styles) and styles[si]:
                del ISSUES[:]
                try:
                    obj = restyle(fmt, obj, styles[si])
                except Exception as e:  # noqa
                    # rebuilding the containers in another style raised: reported as what it is (never as a dump result), and the
                    # object, possibly half rebuilt, is replaced by a freshly built one
                    import traceback
                    tb = traceback.extract_tb(e.__traceback__)
                    ISSUES.append({"fmt": fmt, "op": "restyle", "err": type(e).__name__, "where": "%s:%s" % (os.path.basename(tb[-1].filename), tb[-1].name)})
                    obj = build(F, fmt, spec)
                if ISSUES:
                    r["issues"] = list(ISSUES)
            r["before"] = state_of(fmt, obj, F)
            if fmt in ("rpms", "modules", "extra_files"):
                import c08_manifests
                # the mapping reached AND the outcome of every call: both must be the same for every rearranged history
                r["content"] = c08_manifests.content_key(fmt, obj) + ":" + c08_manifests.outcomes_key(fmt, spec)
            for i in range(n):
                t = dump(F, fmt, obj, mv)
                r["sha"].append(sha(t))
                if i == 0:
                    r["text"] = t
                elif r["sha"][i] != r["sha"][0]:
                    r["other"][str(i)] = t
            r["after"] = state_of(fmt, obj, F)
        except Exception as e:  # noqa
            r["err"] = type(e).__name__
        runs.append(r)
    return {"hashseed": os.environ.get("PYTHONHASHSEED"), "runs": runs}


def touch(F, fmt, obj, text, how):
    """use the object between two dumps without changing its content: read attributes, query it, load its own text into ANOTHER
    object, write a derived file"""
    import io
    try:
        if how == "load_other" and text is not None:
            if fmt == "treeinfo":
                F[fmt].loads(text)
            elif fmt == "discinfo":
                F[fmt].loads(text)
            else:
                other = type(obj)()
                other.loads(text)
                other.dumps()
        elif how == "attrs":
            str(obj)
            repr(obj)
            for name in dir(obj):
                if not name.startswith("_"):
                    try:
                        v = getattr(obj, name)
                        if not callable(v):
                            repr(v)
                    except Exception:  # noqa
                        pass
            if fmt == "composeinfo":
                obj.release_id
                obj.get_release_id(major_version=True)
                obj.create_compose_id()
                for v in obj.get_variants(recursive=True):
                    v.compose_id
                    str(v)
                    len(v)
            if fmt == "images":
                import productmd.images as im
                for v in obj.images:
                    for a in obj.images[v]:
                        for i in obj.images[v][a]:
                            im.identify_image(i)
                            repr(i)
            if hasattr(obj, "header"):
                obj.header.version_tuple
        elif how == "get_variants":
            if fmt in ("composeinfo", "treeinfo"):
                top = obj.variants
                for arch in (None, "x86_64", "src"):
                    for types in (None, ["self"], ["variant", "optional", "addon", "layered-product"]):
                        for rec in (False, True):
                            top.get_variants(arch=arch, types=types, recursive=rec)
                for k in list(top.variants):
                    obj[k]
                    top.variants[k].get_variants(recursive=True)
        elif how == "dump_for_tree":
            if fmt == "extra_files":
                for v in list(obj.extra_files):
                    for a in list(obj.extra_files[v]):
                        obj.dump_for_tree(io.StringIO(), v, a, "")
                        obj.dump_for_tree(io.StringIO(), v, a, "%s/%s/os" % (v, a))
    except Exception:  # noqa
        pass


def modify(F, fmt, obj, old, new):
    """dump -> MODIFY -> dump: bring the object from content `old` to content `new` through the public API (scalars reassigned, further
    add calls); afterwards it must dump like a fresh object built from `new`"""
    if fmt == "composeinfo":
        obj.compose.respin = new["compose"]["respin"]
        obj.compose.id = new["compose"]["id"]
        obj.release.version = new["release"]["version"]
        for nv in new["variants"]:                       # variant-level content: name, a further arch, a further path
            v = obj.variants.variants[nv["key"]]
            v.name = nv["name"]
            v.arches = set(nv["arches"])
            for cat, d in nv["paths"].items():
                getattr(v.paths, cat).update(d)
    elif fmt == "treeinfo":
        obj.release.version = new["release"]["version"]
        obj.tree.build_timestamp = F[fmt].ts_value(new["tree"]["build_timestamp"])
        obj.tree.platforms = set(new["tree"]["platforms"])
        for nv in new["variants"]:
            v = obj.variants.variants[nv["key"]]
            v.name = nv["name"]
            for f, val in nv["paths"]:
                setattr(v.paths, f, val)
    elif fmt == "discinfo":
        obj.description = new["description"]
        obj.disc_numbers = list(new["disc_numbers"])
    elif fmt == "images":
        im = F[fmt].lib()
        obj.compose.respin = new["compose"]["respin"]
        objs = {}
        for v, a, idx in new["adds"][len(old["adds"]):]:
            if idx not in objs:
                objs[idx] = F[fmt].new_image(im, obj, new["pool"][idx])
            obj.add(v, a, objs[idx])
    else:
        import c08_manifests
        obj.compose.respin = new["compose"]["respin"]
        for op in new["ops"][len(old["ops"]):]:
            try:
                c08_manifests.F(fmt).add(obj, op)
            except (ValueError, TypeError):
                pass


def run_seq(F, req):
    """ONE object, a sequence of steps; every dump is paired with the dump of a FRESH object of the same content made with the
    same argument.  steps: {"dump": main_variant | None} | {"touch": how}"""
    fmt, spec = req["fmt"], req["spec"]
    out = {"hashseed": os.environ.get("PYTHONHASHSEED"), "steps": [], "err": None}
    try:
        obj = build(F, fmt, spec)
        last = None
        for st in req["steps"]:
            if "touch" in st:
                touch(F, fmt, obj, last, st["touch"])
                out["steps"].append({"touch": st["touch"]})
                continue
            if "modify" in st:
                modify(F, fmt, obj, spec, st["modify"])
                spec = st["modify"]
                out["steps"].append({"modify": True})
                continue
            if "export" in st:
                # ExtraFiles.dump_for_tree(out, variant, arch, basepath): a derived file; its text too must be what a fresh object gives
                import io
                v, a, base = st["export"]
                r = {"export": st["export"]}

                def export(o):
                    buf = io.StringIO()
                    o.dump_for_tree(buf, v, a, base)
                    return buf.getvalue()
                for key, target in (("text", lambda: obj), ("fresh", lambda: build(F, fmt, spec))):
                    try:
                        r[key] = export(target())
                    except Exception as e:  # noqa
                        r[key] = "ERR:" + type(e).__name__
                out["steps"].append(r)
                continue
            mv = st.get("dump")
            r = {"dump": mv}
            try:
                r["text"] = dump(F, fmt, obj, mv)
                last = r["text"]
            except Exception as e:  # noqa
                r["text"] = "ERR:" + type(e).__name__
            try:
                r["fresh"] = dump(F, fmt, build(F, fmt, spec), mv)
            except Exception as e:  # noqa
                r["fresh"] = "ERR:" + type(e).__name__
            out["steps"].append(r)
    except Exception as e:  # noqa
        out["err"] = type(e).__name__
    return out


def main():
    checklib.use_repo()
    F = adapters()
    for line in sys.stdin:
        line = line.strip()
        if not line:
            continue
        req = json.loads(line)
        res = run_seq(F, req) if req.get("mode") == "seq" else run(F, req)
        sys.stdout.write(json.dumps(res, ensure_ascii=True) + "\n")
        sys.stdout.flush()


if __name__ == "__main__":
    main()
