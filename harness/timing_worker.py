"""Killable worker: times calls into the real library. stdin: JSON lines {"target","pattern","s"}; stdout: {"t": seconds}"""
import json, os, sys, time
REPO = os.environ.get("PRODUCTMD_REPO", "/repo")
sys.dont_write_bytecode = True
sys.path.insert(0, REPO)
import re
import productmd.common as C
import productmd.composeinfo as CI
import productmd.images as IM
import productmd.modules as MO
import productmd.rpms as RP
import productmd.treeinfo as TI


def _field(obj, field, meth):
    def f(s):
        setattr(obj, field, s)
        getattr(obj, meth)()
    return f


def build_api():
    ci = CI.ComposeInfo()
    v = CI.Variant(ci)
    img = IM.Image(IM.Images())
    ti = TI.TreeInfo()
    api = {
        "is_valid_release_short": C.is_valid_release_short,
        "is_valid_release_version": C.is_valid_release_version,
        "is_valid_release_type": C.is_valid_release_type,
        "create_release_id.short": lambda s: C.create_release_id(s, "1", "ga"),
        "create_release_id.version": lambda s: C.create_release_id("f", s, "ga"),
        "create_release_id.type": lambda s: C.create_release_id("f", "1", s),
        "parse_release_id": C.parse_release_id,
        "parse_nvra": C.parse_nvra,
        "split_version": C.split_version,
        "Modules.parse_uid": MO.Modules.parse_uid,
        "verify_label": CI.verify_label,
        "get_date_type_respin": CI.get_date_type_respin,
        "Compose.id": _field(ci.compose, "id", "_validate_id"),
        "Compose.date": _field(ci.compose, "date", "_validate_date"),
        "Compose.label": _field(ci.compose, "label", "_validate_label"),
        "Header.version": _field(ci.header, "version", "validate"),
        "Release.version": _field(ci.release, "version", "_validate_version"),
        "Variant.id": _field(v, "id", "_validate_id"),
        "Image.implant_md5": _field(img, "implant_md5", "_validate_implant_md5"),
        "treeinfo.Release.version": _field(ti.release, "version", "_validate_version"),
        "Rpms.add.nevra": lambda s: RP.Rpms().add("V", "x86_64", s, "p", None, "binary", "a-0:1-1.src"),
        "Modules.add.uid": lambda s: MO.Modules().add("V", "x86_64", s, "tag", "p", "binary", []),
    }
    return api


class Timeout(Exception):
    pass


def _alarm(signum, frame):
    raise Timeout()


def timed(fn, s, limit):
    """seconds, or None when the call had to be interrupted (sre polls for signals while matching)"""
    import signal
    signal.signal(signal.SIGALRM, _alarm)
    signal.setitimer(signal.ITIMER_REAL, limit)
    t0 = time.perf_counter()
    try:
        fn(s)
    except Timeout:
        return None
    except Exception:
        pass
    finally:
        signal.setitimer(signal.ITIMER_REAL, 0)
    return time.perf_counter() - t0


def main():
    """one request per line: {"target","pattern","kind","families":[[[s,limit],...],...]} -> {"times":[[t|null,...],...]};
    a family is abandoned after its first interrupted or over-limit call"""
    api = build_api()
    for line in sys.stdin:
        req = json.loads(line)
        t = req["target"]
        if t.startswith("pattern:"):
            pat = req["pattern"]
            fn = (lambda x: re.split(pat, x)) if req.get("kind") == "split" else (lambda x: re.match(pat, x))
        else:
            fn = api[t[4:]]
        out = []
        stalled = 0
        for fam in req["families"]:
            row = []
            if stalled >= 1:           # one stalled family per target is enough evidence
                out.append(row)
                continue
            for s, limit in fam:
                dt = timed(fn, s, limit * 1.5 + 0.2)
                row.append(dt)
                if dt is None or dt > limit:
                    stalled += 1
                    break
            out.append(row)
        sys.stdout.write(json.dumps({"times": out}) + "\n")
        sys.stdout.flush()


if __name__ == "__main__":
    if len(sys.argv) > 1 and sys.argv[1] == "--list":
        print(json.dumps(sorted(build_api())))
    else:
        main()
