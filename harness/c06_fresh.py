"""C06 worker: a FRESH interpreter in which the first validate() of every class happens base classes first (BaseProduct before
Release, MetadataBase helpers before their subclasses), the reverse of what the library itself does; then a slice of the C06 stream is
evaluated on the real library with the property oracle.  State cached per class on first use (validator inventories memoised with
hasattr / class attributes, lazily compiled patterns) is only visible this way: within the main check process the library's own order
has long happened.  stdout: one JSON object {"n": cases, "prelude": parts validated, "fails": [...]}."""
import json, os, random, sys

HERE = os.path.dirname(os.path.abspath(__file__))
sys.path.insert(0, HERE)
import checklib  # noqa: E402
checklib.worker_linecov()


def main():
    seed, budget = sys.argv[1], int(sys.argv[2])
    checklib.use_repo()
    from props import load_prop
    p = load_prop("C06")
    import formats.valid7 as V
    rng = random.Random("C06-fresh-prelude-%s" % seed)
    parts = []
    for fmt in V.FORMATS:
        try:
            obj = V.build(fmt, V.gen(rng, fmt, 3))
            parts += [part for _, part in V.all_parts(fmt, obj) if hasattr(part, "validate")]
        except Exception:   # noqa
            pass
    parts.sort(key=lambda x: (len(type(x).__mro__), type(x).__module__, type(x).__name__))      # base classes first
    n_pre = 0
    for part in parts:
        try:
            part.validate(); n_pre += 1
        except Exception:   # noqa
            pass
    rng = random.Random("C06-fresh-%s" % seed)
    fails, n = [], 0

    def stream():
        # first: every catalogue rule of every class that INHERITS from another validated class (Release < BaseProduct, …),
        # broken on a few objects each - the rules a per-class cache filled by the base class would lose
        import props.c06 as M
        import formats.rules7 as R
        T = p.T()
        sub = {}
        for part in parts:
            k = type(part)
            bases = [b for b in k.__mro__[1:] if b.__module__.startswith("productmd") and b.__name__ != "MetadataBase"]
            if bases:
                sub["%s.%s" % (k.__module__.split(".")[-1], k.__name__)] = True
        for rnd in range(3):
            for fmt in V.FORMATS:
                for cls in sorted(sub):
                    for rule in R.catalogue(cls):
                        spec = V.gen(rng, fmt, 50 + rnd)
                        try:
                            mod, tag = M.propose(fmt, spec, rng, T, target=(cls, rule))
                        except Exception:   # noqa
                            continue
                        if mod is not None:
                            yield p.mk(fmt, spec, [{"do": "mod", "mod": mod}, {"do": "dumps"}], tag, "fresh")
        for c in p.cases(rng, "quick", budget):
            yield c
    for case in stream():
        n += 1
        r = p.real(case)
        o = p.oracle(case, r)
        if o is not None:
            obs = o.get("observed")
            if isinstance(obs, dict):
                obs = dict(obs, fresh_process="base classes validated first")
            fails.append({"case": case, "observed": obs, "required": o.get("required"), "kind": o.get("kind", "oracle"), "real": r})
            if len(fails) >= 40:
                break
    print(json.dumps({"n": n, "prelude": n_pre, "fails": fails}, default=str))


if __name__ == "__main__":
    main()
