"""Compact builders of VALID objects of all seven formats (used by C18; every nested class is reached by a dump).

build(fmt, rng) -> a fresh valid real object.  Every random choice comes from `rng`.  `FORMATS` lists the names.
The objects deliberately exercise every conditional section writer: layered release + base product, label + final,
nested variants, a layered-product variant, treeinfo addons / images / stage2 / media / checksums.
"""
import checklib

FORMATS = ["composeinfo", "images", "rpms", "modules", "extra_files", "treeinfo", "discinfo"]
ARCHES = ["x86_64", "i386", "ppc64le", "aarch64", "s390x"]


def _compose(c, rng):
    c.date = "%04d%02d%02d" % (rng.randint(1999, 2030), rng.randint(1, 12), rng.randint(1, 28))
    c.type = rng.choice(["production", "nightly", "test", "ci"])
    c.respin = rng.choice([0, 1, 12])
    suffix = {"production": "", "nightly": ".n", "test": ".t", "ci": ".ci"}[c.type]
    c.id = "%s-%s-%s%s.%d" % (rng.choice(["F", "RHEL", "My-Prod"]), rng.choice(["22", "7.1", "Rawhide"]), c.date, suffix, c.respin)


def composeinfo(rng):
    pm = checklib.use_repo()
    from productmd.composeinfo import ComposeInfo, Variant
    ci = ComposeInfo()

    def rel(r):
        r.name = rng.choice(["Fedora", "Red Hat Enterprise Linux", "X é"])
        r.short = rng.choice(["F", "rhel", "My-Prod"])
        r.version = rng.choice(["22", "7.1", "Rawhide", "1.2.3"])
        r.type = rng.choice(["ga", "updates", "eus"])
    rel(ci.release)
    ci.release.internal = rng.random() < 0.3
    ci.release.is_layered = True
    rel(ci.base_product)
    _compose(ci.compose, rng)
    ci.compose.label = "%s-%d.%d" % (rng.choice(["RC", "Beta", "Alpha"]), rng.randrange(1, 20), rng.randrange(20))
    ci.compose.final = rng.random() < 0.5
    n = [0]

    def mkv(parent, vtype):
        n[0] += 1
        v = Variant(ci)
        v.id = "V%d%s" % (n[0], rng.choice(["", "x", "Z"]))
        v.uid = v.id if parent is None else parent.uid + "-" + v.id
        v.name = rng.choice(["n", "Name %d" % n[0]])
        v.type = vtype
        pa = sorted(parent.arches) if parent is not None else ARCHES
        v.arches = set(rng.sample(pa, rng.randint(1, len(pa))))
        if vtype == "layered-product":
            rel(v.release)
        for cat in rng.sample(["os_tree", "packages", "repository", "isos", "source_tree", "debug_tree"], rng.randint(1, 4)):
            d = getattr(v.paths, cat)
            for a in sorted(v.arches):
                d[a] = "%s/%s/%s" % (v.uid, a, cat)
        (parent if parent is not None else ci.variants).add(v)
        return v
    top = mkv(None, "variant")
    mkv(top, rng.choice(["optional", "addon"]))
    if rng.random() < 0.5:
        mkv(top, "addon")
    mkv(None, "layered-product")
    return ci


def images(rng):
    checklib.use_repo()
    from productmd.images import Images, Image
    im = Images()
    _compose(im.compose, rng)
    k = 0
    for v in rng.sample(["Server", "Client", "Everything"], rng.randint(1, 2)):
        for a in rng.sample(["x86_64", "i386", "ppc64le"], rng.randint(1, 2)):
            for _ in range(rng.randint(1, 2)):
                k += 1
                i = Image(im)
                t, f = rng.choice([("dvd", "iso"), ("boot", "iso"), ("qcow2", "qcow2"), ("live", "iso")])
                i.path = "%s/%s/iso/img%d.%s" % (v, a, k, f)
                i.mtime = rng.choice([1, 1432300000, 2 ** 31 + 5])
                i.size = rng.choice([1, 2 ** 32 + 7])
                i.volume_id = rng.choice([None, "vol %d" % k])
                i.type, i.format, i.arch = t, f, a
                i.disc_number, i.disc_count = k, k + rng.choice([0, 1])
                i.checksums = {"sha256": "%064x" % rng.getrandbits(256)}
                i.implant_md5 = rng.choice([None, "%032x" % rng.getrandbits(128)])
                i.bootable = rng.random() < 0.5
                i.subvariant = rng.choice(["", "KDE", v])
                im.add(v, a, i)
    return im


def rpms(rng):
    checklib.use_repo()
    from productmd.rpms import Rpms
    r = Rpms()
    _compose(r.compose, rng)
    for k in range(rng.randint(1, 3)):
        name = rng.choice(["glibc", "bash", "python-six"])
        ver = "%d.%d" % (rng.randint(0, 9), k)
        a = rng.choice(["x86_64", "ppc64le"])
        r.add("Server", a, "%s-0:%s-1.fc22.%s" % (name, ver, a), "Server/%s/os/Packages/%s/%s-%s-1.fc22.%s.rpm" % (a, name[0], name, ver, a),
              "%08x" % rng.getrandbits(32), "binary", "%s-0:%s-1.fc22.src" % (name, ver))
    return r


def modules(rng):
    checklib.use_repo()
    from productmd.modules import Modules
    m = Modules()
    _compose(m.compose, rng)
    for k in range(rng.randint(1, 2)):
        m.add("Server", rng.choice(["x86_64", "ppc64le"]), "mod%d:stream:%d:ctx" % (k, 20180101 + k), "module-tag-%d" % k,
              "Server/x86_64/os/repodata/%d-modules.yaml.gz" % k, "binary", ["foo-0:1.0-%d.x86_64" % k])
    return m


def extra_files(rng):
    checklib.use_repo()
    from productmd.extra_files import ExtraFiles
    e = ExtraFiles()
    _compose(e.compose, rng)
    for k in range(rng.randint(1, 3)):
        e.add("Server", rng.choice(["x86_64", "src"]), "Server/x86_64/os/%s%d" % (rng.choice(["GPL", "EULA"]), k), rng.choice([0, 12, 2 ** 33]),
              {"md5": "%032x" % rng.getrandbits(128)})
    return e


def treeinfo(rng):
    checklib.use_repo()
    from productmd.treeinfo import TreeInfo, Variant
    ti = TreeInfo()
    r = ti.release
    r.name = rng.choice(["Fedora", "Red Hat Enterprise Linux", "A = B"])
    r.short = rng.choice(["F", "RHEL"])
    r.version = rng.choice(["20", "7.1", "Rawhide"])
    r.is_layered = True
    b = ti.base_product
    b.name, b.short, b.version = "Base", "B", rng.choice(["7", "Beta"])
    arch = rng.choice(["x86_64", "ppc64le"])
    ti.tree.arch = arch
    ti.tree.build_timestamp = rng.choice([1, 123456, 1432300000])
    plats = set(rng.sample(["xen", "efi"], rng.randint(0, 2))) | set([arch])
    ti.tree.platforms = set(plats)
    v = Variant(ti)
    v.id = v.uid = rng.choice(["Server", "Client"])
    v.name, v.type = "n", "variant"
    v.paths.packages, v.paths.repository = "Packages", "."
    ti.variants.add(v)
    c = Variant(ti)
    c.id = "HA"; c.uid = v.uid + "-HA"; c.name = "kid"; c.type = "addon"
    c.paths.packages = "addons/HA"
    v.add(c)
    for p in sorted(plats):
        ti.images.images[p] = {"kernel": "images/%s/vmlinuz" % p, "initrd": "images/%s/initrd.img" % p}
    ti.stage2.mainimage = "LiveOS/squashfs.img"
    ti.media.discnum, ti.media.totaldiscs = 1, rng.choice([1, 3])
    ti.checksums.add("images/boot.iso", "sha256", "%064x" % rng.getrandbits(256))
    return ti


def discinfo(rng):
    checklib.use_repo()
    from productmd.discinfo import DiscInfo
    d = DiscInfo()
    d.timestamp = float(rng.choice([1432300000, 1.5, 1386856788.124593]))
    d.description = rng.choice(["Fedora 20", "Red Hat Enterprise Linux 7.1"])
    d.arch = rng.choice(["x86_64", "ppc64le"])
    d.disc_numbers = rng.choice([["ALL"], [1], [1, 2]])
    return d


def build(fmt, rng):
    return globals()[fmt](rng)
