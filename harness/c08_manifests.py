"""C08 glue for the three payload-verbatim manifests (rpms / modules / extra_files): the shared adapters of builder
`builders` (harness/formats/{rpms,modules,extra_files}.py) describe a manifest as a list of `add` calls; a rearrangement is
another order of those calls.  Two calls that hit the same key are not commutative ("last write wins"), so the worker reports
the content reached (`content_key`) and only orders that reach the SAME content are compared."""
import hashlib, importlib, json


def F(fmt):
    return importlib.import_module("formats." + fmt)


def strip_ops(ops):
    return [dict((k, v) for k, v in op.items() if k not in ("expect", "why")) for op in ops]


def gen(fmt, rng, tier):
    spec = F(fmt).gen(rng, tier, valid_only=True)
    keyf = {"rpms": lambda o: (o["variant"], o["arch"], o["nevra"].split(":")[-1].split("-")[0] if False else o["nevra"]),
            "modules": lambda o: (o["variant"], o["arch"], json.dumps(o["uid"], sort_keys=True)),
            "extra_files": lambda o: (o["variant"], o["arch"], o["path"])}[fmt]
    seen, ops = set(), []
    for o in strip_ops(spec["ops"]):
        # rpms: calls that hit the same entry twice do not commute ("last write wins"): keep the first.  modules / extra_files:
        # repeated calls are CONTENT (a module added once per category concatenates its rpm list; an extra file listed twice is two
        # list entries) and `permute` keeps their relative order, so they stay
        k = keyf(o)
        if fmt != "rpms" or k not in seen:
            seen.add(k)
            ops.append(o)
    spec["ops"] = ops
    return spec


KEY_SHAPES = ["Server", "server", "SERVER", "S\u00e9rver", "\U0001F4BF", "ppc", "ppc64", "ppc64le", "None", "null", "0", "1.0", "False",
              "a b", " lead", "trail ", "tab\tkey", "\u00a0", "a-b", "a.b", "a:b", 'q"uote', "back\\slash", "a,b", "a/b", "a=b", "#h", "%p", "[b]", ";s", "a--b", "x" * 300, "\u0663", "\uff17", "Z", "a", "_"]


def boost(fmt, spec, rng, i):
    """round-robin over the container classes of the format: >= 3 entries in non-sorted insertion order in every dict level, key
    shapes (case variants of one name, non-ASCII / astral, prefix families, type look-alikes, very long), repeated list entries"""
    import formats.manifest_common as mc
    arches = mc.arches()
    ops = spec["ops"]
    cls = i % 5
    if fmt == "rpms":
        R = F("rpms")
        if cls == 0:                                   # >= 3 variants, key shapes, descending
            vs = sorted(["server", "Server", "\uff17", "\U0001F4BF"] + rng.sample(KEY_SHAPES[2:], 2), reverse=True)
            src = R.gen_source(rng)
            for j, v in enumerate(vs):
                ops.append(R.valid_op(rng, src, v, arches[0], j))
        elif cls == 1:                                 # >= 3 arches under one variant (prefix family), descending
            src = R.gen_source(rng)
            for j, a in enumerate(sorted([x for x in arches if x.startswith(("ppc", "s390", "arm"))][:5], reverse=True)):
                ops.append(R.valid_op(rng, src, "Server", a, 0))
        elif cls == 2:                                 # >= 3 source packages in one table, >= 3 packages under one of them
            srcs = [R.gen_source(rng) for _ in range(4)]
            srcs.sort(key=lambda x: x["name"], reverse=True)
            for s_ in srcs:
                ops.append(R.valid_op(rng, s_, "Client", arches[1], 0))
            for j in range(5):
                ops.append(R.valid_op(rng, srcs[0], "Client", arches[1], j % 2))
    elif fmt == "modules":
        M = F("modules")
        if cls in (0, 3):                              # ONE module added once per category, the rpm lists overlap (repeated entries), >= 3 distinct
            parts = M.gen_module(rng)
            pool = ["zz-0:9-1.noarch", "foo-0:1.0-1.x86_64", "bar-libs-2:3.1-4.el8.noarch", "Aa-0:1-1.src", "foo-debuginfo-0:1.0-1.x86_64", "10-0:1-1.noarch"]
            v, a = rng.choice(["Server", "AppStream"]), arches[0]
            cats = list(M.CATEGORIES)
            rng.shuffle(cats)
            shared = rng.choice(pool)
            for j, cat in enumerate(cats[:rng.choice([2, 3])]):
                op = M.valid_op(rng, parts, v, a, M.CATEGORIES.index(cat))
                items = rng.sample(pool, rng.randint(2, 4))
                if shared not in items:
                    items.insert(rng.randrange(len(items) + 1), shared)
                if cls == 3 and j == 0:
                    items.append(items[0])             # a repeated element inside one argument
                op["rpms"] = {"list": items} if j % 2 == 0 else {"tuple": items}
                ops.append(op)
        elif cls == 1:                                 # >= 3 modules in one table, >= 3 variants with key shapes
            vs = sorted(["server", "Server"] + rng.sample(KEY_SHAPES[2:], 1), reverse=True)
            mods = sorted((M.gen_module(rng) for _ in range(4)), reverse=True)
            for j, m in enumerate(mods):
                ops.append(M.valid_op(rng, m, vs[j % 3], arches[0], j))
                ops.append(M.valid_op(rng, m, vs[0], arches[0], j))
        elif cls == 2:                                 # >= 3 arches
            m = M.gen_module(rng)
            for a in sorted(arches[:6], reverse=True)[:4]:
                ops.append(M.valid_op(rng, m, "BaseOS", a, 0))
    elif fmt == "extra_files":
        E = F("extra_files")
        if cls == 0:                                   # >= 3 entries in one list, not sorted, one path listed twice; >= 3 checksum types incl. case variants
            v, a = "Server", arches[0]
            names = ["zz/GPL", "EULA", "a/README", "EULA", "10", "9", "S\u00e9/\U0001F4BF", "a b/c"]
            for n in names[:rng.randint(4, 8)]:
                op = E.valid_op(rng, v, a)
                op["path"] = n
                op["checksums"] = dict((t, "%032x" % rng.getrandbits(128)) for t in ["sha256", "SHA256", "md5", "Sha512", "sha1"][:rng.randint(3, 5)])
                ops.append(op)
        elif cls == 1:                                 # >= 3 variants with key shapes
            for v in sorted(["server", "Server", "\uff17", "\U0001F4BF"] + rng.sample(KEY_SHAPES[2:], 2), reverse=True):
                ops.append(E.valid_op(rng, v, arches[0]))
        elif cls == 2:                                 # >= 3 arches
            for a in sorted(arches[:7], reverse=True)[:4]:
                ops.append(E.valid_op(rng, "Client", a))
    spec["ops"] = strip_ops(ops)
    return spec


def permute(fmt, spec, rng):
    """rpms: any order of the add calls (they land in dicts).  modules / extra_files: the calls of one (variant, arch) table keep
    their relative order (extra-file entries are a caller-ordered list; repeated adds of one module concatenate its caller-ordered
    rpm list), the tables are interleaved in any order"""
    if fmt == "rpms":
        rng.shuffle(spec["ops"])
        return spec
    cells = {}
    for o in spec["ops"]:
        cells.setdefault((o["variant"], o["arch"]), []).append(o)
    labels = [k for k, l in cells.items() for _ in l]
    rng.shuffle(labels)
    pos = dict((k, 0) for k in cells)
    out = []
    for k in labels:
        out.append(cells[k][pos[k]])
        pos[k] += 1
    spec["ops"] = out
    return spec


def build(fmt, spec):
    return F(fmt).build(spec)


def content_key(fmt, obj):
    import formats.manifest_common as mc
    m = F(fmt).mapping(obj)
    return hashlib.sha1(json.dumps(mc.enc(m), sort_keys=True).encode()).hexdigest()


def _unsorted3(keys):
    keys = list(dict.fromkeys(keys))
    return len(keys) >= 3 and keys != sorted(keys)


def features(fmt, spec):
    f = []
    ops = spec["ops"]
    if _unsorted3(o["variant"] for o in ops):
        f.append("%s:variant dict >=3 unsorted" % fmt)
    by_v = {}
    for o in ops:
        by_v.setdefault(o["variant"], []).append(o["arch"])
    if any(_unsorted3(a) for a in by_v.values()):
        f.append("%s:arch dict >=3 unsorted" % fmt)
    if any(k != "Server" and k.lower() == "server" for k in by_v) and "Server" in by_v:
        f.append("%s:keys differing only in case" % fmt)
    if any(ord(c) > 127 for k in by_v for c in k):
        f.append("%s:non-ASCII key" % fmt)
    if any(len(k) >= 300 for k in by_v):
        f.append("%s:key >= 300 chars" % fmt)
    if any(k != k.strip() or "\t" in k or "\u00a0" in k for k in by_v):
        f.append("%s:key with leading/trailing blank, tab or NBSP" % fmt)
    if any(c in k for k in by_v for c in '"\\,/=#%[];'):
        f.append("%s:key containing a delimiter / quote / backslash" % fmt)
    if any(ord(c) > 0xFFFF for k in by_v for c in k) and any(0xD7FF < ord(c) <= 0xFFFF for k in by_v for c in k):
        f.append("%s:astral and high-BMP key in one dict (code-point vs UTF-16 order)" % fmt)
    cells = {}
    for o in ops:
        cells.setdefault((o["variant"], o["arch"]), []).append(o)
    if fmt == "rpms":
        if any(_unsorted3((o.get("srpm") or o["nevra"]) for o in c) for c in cells.values()):
            f.append("rpms:srpm table >=3 unsorted")
        for c in cells.values():
            by_s = {}
            for o in c:
                if o.get("srpm"):
                    by_s.setdefault(o["srpm"].split(":")[-1], []).append(o["nevra"])
            if any(_unsorted3(x) for x in by_s.values()):
                f.append("rpms:rpm table of one srpm >=3 unsorted")
    if fmt == "modules":
        for c in cells.values():
            if _unsorted3(json.dumps(o["uid"]) for o in c):
                f.append("modules:module table >=3 unsorted")
            by_u = {}
            for o in c:
                by_u.setdefault(json.dumps(o["uid"]).split("/")[-1], []).append(o)
            for l in by_u.values():
                if len(set(o["category"] for o in l)) >= 2:
                    f.append("modules:one module added for >= 2 categories (modulemd_path dict)")
                    allr = [x for o in l if isinstance(o.get("rpms"), dict) for x in (o["rpms"].get("list") or o["rpms"].get("tuple") or [])]
                    if len(set(allr)) < len(allr) and len(set(allr)) >= 3:
                        f.append("modules:rpm list with a REPEATED entry across categories, >= 3 distinct")
        if any(isinstance(o.get("rpms"), dict) and (lambda l: len(set(l)) < len(l))(o["rpms"].get("list") or o["rpms"].get("tuple") or []) for o in ops):
            f.append("modules:repeated element inside one rpms argument")
    if fmt == "extra_files":
        for c in cells.values():
            ps = [o["path"] for o in c]
            if len(ps) >= 3 and ps != sorted(ps):
                f.append("extra_files:entry list >=3, not sorted (caller order)")
            if len(set(ps)) < len(ps):
                f.append("extra_files:one path listed twice")
        if any(isinstance(o.get("checksums"), dict) and _unsorted3(o["checksums"]) for o in ops):
            f.append("extra_files:checksum dict >=3 unsorted")
        if any(isinstance(o.get("checksums"), dict) and len(set(k.lower() for k in o["checksums"])) < len(o["checksums"]) for o in ops):
            f.append("extra_files:checksum keys differing only in case")
    if len(ops) >= 3:
        f.append("%s:>=3 add calls" % fmt)
    if len(set((o["variant"], o["arch"]) for o in ops)) >= 2:
        f.append("%s:>=2 (variant, arch) tables" % fmt)
    if fmt == "modules" and any(len((o["rpms"].get("list") or o["rpms"].get("tuple") or [])) >= 2 for o in ops if isinstance(o.get("rpms"), dict)):
        f.append("modules:rpm list >= 2")
    if fmt == "extra_files" and any(isinstance(o.get("checksums"), dict) and len(o["checksums"]) >= 2 for o in ops):
        f.append("extra_files:>=2 checksum types")
    return f


def model_requests(fmt, spec):
    return [{"op": "bld_roundtrip", "args": {"kind": fmt, "version": "0.0", "compose": spec["compose"], "ops": strip_ops(spec["ops"])}}]


def model_text(fmt, o):
    out = o.get("out", {})
    if "ok" in out:
        return out["ok"]["text1"]
    return out


def order_kept(fmt, spec, text):
    """a module's rpm list is written in the caller's order (calls with a unique target only)"""
    if fmt != "modules":
        return None
    doc = json.loads(text)
    lists = []

    def walk(x):
        if isinstance(x, dict):
            if isinstance(x.get("rpms"), list) and "metadata" in x:
                lists.append(x["rpms"])
            for v in x.values():
                walk(v)
    walk(doc["payload"]["modules"])
    given = []
    for o in spec["ops"]:
        r = o.get("rpms")
        if isinstance(r, dict):
            given.append(list(r.get("list") or r.get("tuple") or []))
    def sub(small, big):
        n = len(small)
        return any(big[i:i + n] == small for i in range(len(big) - n + 1))
    for g in given:
        if g and not any(sub(g, l) for l in lists):
            return "the caller's rpm list %r is not written in that order: %r" % (g, lists[:4])
    return None


def shrink(fmt, spec):
    out = []
    for i in range(len(spec["ops"])):
        s = dict(spec, ops=spec["ops"][:i] + spec["ops"][i + 1:])
        out.append(s)
    return out
