"""C08 glue for the three payload-verbatim manifests (rpms / modules / extra_files): the shared adapters of builder
`builders` (harness/formats/{rpms,modules,extra_files}.py) describe a manifest as a list of `add` calls; a rearrangement is
another order of those calls.  Two calls that hit the same key are not commutative ("last write wins"), so the worker reports
the content reached (`content_key`) and only orders that reach the SAME content are compared."""
import hashlib, importlib, json


def F(fmt):
    return importlib.import_module("formats." + fmt)


def strip_ops(ops):
    return [dict((k, v) for k, v in op.items() if k not in ("expect", "why")) for op in ops]


# refusals named by the statement (C12): each makes the call raise and write nothing, whatever the mapping
REFUSED_KINDS = {"rpms": ["abs_path", "empty_path", "bad_arch", "src_arch", "bad_category", "unparsable", "missing_epoch", "category_disagrees",
                          "srpm_unparsable"],
                 "modules": ["bad_uid", "abs_path", "empty_path", "bad_arch", "bad_category", "empty_variant", "empty_koji_tag", "bad_rpms"],
                 "extra_files": ["abs_path", "empty_path", "bad_arch", "empty_variant", "bad_checksums"]}


def cell_of(fmt, op):
    """the ORDER-SENSITIVE cell a call writes (the quantifier of C08_perm_history_*: calls of one cell keep their relative order,
    everything else may be rearranged), read off the REAL library: the call is made on a fresh object and the cell is where it
    wrote - rpms [variant, arch, srpm key, rpm key] (a second write of the slot wins), modules [variant, arch, uid] (repeated adds
    extend the rpm list), extra_files [variant, arch] (the entry list).  None: the call is refused (it writes nothing; it may stand
    anywhere).  The model's `Mf.rpmsSlot` / `modulesSlot` / `extraSlot` must agree (driver op c08_history, compared per case)."""
    Fm = F(fmt)
    obj = Fm.new()
    try:
        Fm.add(obj, op)
    except Exception:  # noqa
        return None
    m = Fm.mapping(obj)
    try:
        v = next(iter(m))
        a = next(iter(m[v]))
        if fmt == "extra_files":
            return [v, a]
        k = next(iter(m[v][a]))
        if fmt == "modules":
            return [v, a, k]
        return [v, a, k, next(iter(m[v][a][k]))]
    except (StopIteration, TypeError, AttributeError, KeyError):
        return None


def history(fmt, spec):
    """the base history on a fresh real object: per call its cell and its outcome ("ok" / exception class)"""
    Fm = F(fmt)
    obj = Fm.new()
    cells, outs = [], []
    for op in spec["ops"]:
        cells.append(cell_of(fmt, op))
        try:
            Fm.add(obj, op)
            outs.append("ok")
        except Exception as e:  # noqa
            outs.append(type(e).__name__)
    return {"cells": cells, "outcomes": outs}


def outcomes_key(fmt, spec):
    """the refused calls of a history with their exception class, as a multiset: the same for every rearrangement
    (C08_perm_history_*: every call has the same outcome in both runs; accepted calls are visible in the mapping)"""
    h = history(fmt, spec)
    rows = sorted(json.dumps([op, o], sort_keys=True, default=repr) for op, o in zip(strip_ops(spec["ops"]), h["outcomes"]) if o != "ok")
    return hashlib.sha1("\n".join(rows).encode()).hexdigest()


def add_refused(fmt, spec, rng, n, lo=1):
    """`n` refused calls (one documented precondition broken each) at random positions >= `lo`, in the middle of the history"""
    Fm = F(fmt)
    ops = spec["ops"]
    good = [o for o in ops if cell_of(fmt, o) is not None]
    for _ in range(n):
        if not good:
            break
        bad = Fm.invalid_op(rng, dict(rng.choice(good)), rng.choice(REFUSED_KINDS[fmt]))
        bad = strip_ops([bad])[0]
        if cell_of(fmt, bad) is not None:
            continue                                   # accepted after all (a corruption that happens to be valid): not a refused call
        lo_ = min(max(lo, 0), len(ops))
        ops.insert(rng.randrange(lo_, len(ops)) if len(ops) > lo_ else len(ops), bad)
    return spec


def gen(fmt, rng, tier):
    # same-slot rewrites (rpms: "last write wins"), repeated adds of one module and repeated extra-file entries are CONTENT: they
    # stay, and `permute` keeps the calls of one cell in their relative order
    spec = F(fmt).gen(rng, tier, valid_only=True)
    spec["ops"] = strip_ops(spec["ops"])
    return add_refused(fmt, spec, rng, rng.choice([0, 1, 1, 2, 3]))


KEY_SHAPES = ["Server", "server", "SERVER", "S\u00e9rver", "\U0001F4BF", "ppc", "ppc64", "ppc64le", "None", "null", "0", "1.0", "False",
              "a b", " lead", "trail ", "tab\tkey", "\u00a0", "a-b", "a.b", "a:b", 'q"uote', "back\\slash", "a,b", "a/b", "a=b", "#h", "%p", "[b]", ";s", "a--b", "x" * 300, "\u0663", "\uff17", "Z", "a", "_"]


def boost(fmt, spec, rng, i):
    """round-robin over the container classes of the format: >= 3 entries in non-sorted insertion order in every dict level, key
    shapes (case variants of one name, non-ASCII / astral, prefix families, type look-alikes, very long), repeated list entries"""
    import formats.manifest_common as mc
    arches = mc.arches()
    ops = spec["ops"]
    n0 = len(ops)                                      # `c08_seq` grows an object by the calls appended here: earlier positions stay
    cls = i % 5
    if fmt == "rpms":
        R = F("rpms")
        if cls == 0:                                   # >= 3 variants, key shapes, descending
            vs = sorted(["server", "Server", "\uff17", "\U0001F4BF"] + rng.sample(KEY_SHAPES[2:], 2), reverse=True)
            src = R.gen_source(rng)
            for j, v in enumerate(vs):
                ops.append(R.valid_op(rng, src, v, arches[0], j))
        elif cls == 1:                                 # >= 3 arches under one variant (prefix family), descending
            src = R.gen_source(rng)
            for j, a in enumerate(sorted([x for x in arches if x.startswith(("ppc", "s390", "arm"))][:5], reverse=True)):
                ops.append(R.valid_op(rng, src, "Server", a, 0))
        elif cls == 2:                                 # >= 3 source packages in one table, >= 3 packages under one of them
            srcs = [R.gen_source(rng) for _ in range(4)]
            srcs.sort(key=lambda x: x["name"], reverse=True)
            for s_ in srcs:
                ops.append(R.valid_op(rng, s_, "Client", arches[1], 0))
            for j in range(5):
                ops.append(R.valid_op(rng, srcs[0], "Client", arches[1], j % 2))
        elif cls in (3, 4):                            # ONE slot written 3 times (the last record must survive in every order), other
            src = R.gen_source(rng)                    # packages of the same source package and of another variant in between
            first = R.valid_op(rng, src, "Server", arches[0], 0)
            ops.append(first)
            for j in range(2):
                ops.append(R.valid_op(rng, src, rng.choice(["Server", "Client"]), arches[0], j))
                again = dict(first)
                again["path"] = "rewrite%d/%s" % (j, first["path"])
                again["sigkey"] = rng.choice(R.SIGKEYS[:4])
                ops.append(again)
            if cls == 4:
                ops.append(dict(first))                # and the very first record once more at the end
    elif fmt == "modules":
        M = F("modules")
        if cls in (0, 3):                              # ONE module added once per category, the rpm lists overlap (repeated entries), >= 3 distinct
            parts = M.gen_module(rng)
            pool = ["zz-0:9-1.noarch", "foo-0:1.0-1.x86_64", "bar-libs-2:3.1-4.el8.noarch", "Aa-0:1-1.src", "foo-debuginfo-0:1.0-1.x86_64", "10-0:1-1.noarch"]
            v, a = rng.choice(["Server", "AppStream"]), arches[0]
            cats = list(M.CATEGORIES)
            rng.shuffle(cats)
            shared = rng.choice(pool)
            for j, cat in enumerate(cats[:rng.choice([2, 3])]):
                op = M.valid_op(rng, parts, v, a, M.CATEGORIES.index(cat))
                items = rng.sample(pool, rng.randint(2, 4))
                if shared not in items:
                    items.insert(rng.randrange(len(items) + 1), shared)
                if cls == 3 and j == 0:
                    items.append(items[0])             # a repeated element inside one argument
                op["rpms"] = {"list": items} if j % 2 == 0 else {"tuple": items}
                ops.append(op)
        elif cls == 1:                                 # >= 3 modules in one table, >= 3 variants with key shapes
            vs = sorted(["server", "Server"] + rng.sample(KEY_SHAPES[2:], 1), reverse=True)
            mods = sorted((M.gen_module(rng) for _ in range(4)), reverse=True)
            for j, m in enumerate(mods):
                ops.append(M.valid_op(rng, m, vs[j % 3], arches[0], j))
                ops.append(M.valid_op(rng, m, vs[0], arches[0], j))
        elif cls == 2:                                 # >= 3 arches
            m = M.gen_module(rng)
            for a in sorted(arches[:6], reverse=True)[:4]:
                ops.append(M.valid_op(rng, m, "BaseOS", a, 0))
    elif fmt == "extra_files":
        E = F("extra_files")
        if cls == 0:                                   # >= 3 entries in one list, not sorted, one path listed twice; >= 3 checksum types incl. case variants
            v, a = "Server", arches[0]
            names = ["zz/GPL", "EULA", "a/README", "EULA", "10", "9", "S\u00e9/\U0001F4BF", "a b/c"]
            for n in names[:rng.randint(4, 8)]:
                op = E.valid_op(rng, v, a)
                op["path"] = n
                op["checksums"] = dict((t, "%032x" % rng.getrandbits(128)) for t in ["sha256", "SHA256", "md5", "Sha512", "sha1"][:rng.randint(3, 5)])
                ops.append(op)
        elif cls == 1:                                 # >= 3 variants with key shapes
            for v in sorted(["server", "Server", "\uff17", "\U0001F4BF"] + rng.sample(KEY_SHAPES[2:], 2), reverse=True):
                ops.append(E.valid_op(rng, v, arches[0]))
        elif cls == 2:                                 # >= 3 arches
            for a in sorted(arches[:7], reverse=True)[:4]:
                ops.append(E.valid_op(rng, "Client", a))
    spec["ops"] = strip_ops(ops)
    if i % 2 == 0:
        add_refused(fmt, spec, rng, 1 + i % 3, lo=n0 + 1)     # refused calls in the middle of the history
    return spec


def permute(fmt, spec, rng, reduce=False):
    """a random rearrangement of the history that keeps the calls of every order-sensitive cell (`cell_of`) in their relative order:
    any order of variants, arches, source packages, packages, modules; refused calls anywhere - the quantifier of
    C08_perm_history_rpms / _modules / _extra_files (`SameOrder slot h h'`)"""
    groups, keys = {}, []
    for i, o in enumerate(spec["ops"]):
        c = cell_of(fmt, o)
        k = json.dumps(c) if c is not None else "refused#%d" % i
        keys.append(k)
        groups.setdefault(k, []).append(o)
    if reduce:
        # rpms: only the LAST write of a slot is content
        groups = dict((k, l[-1:]) for k, l in groups.items())
        keys = list(groups)
    rng.shuffle(keys)
    pos = dict((k, 0) for k in groups)
    out = []
    for k in keys:
        out.append(groups[k][pos[k]])
        pos[k] += 1
    spec["ops"] = out
    return spec


def build(fmt, spec):
    return F(fmt).build(spec)


def content_key(fmt, obj):
    import formats.manifest_common as mc
    m = F(fmt).mapping(obj)
    return hashlib.sha1(json.dumps(mc.enc(m), sort_keys=True).encode()).hexdigest()


def _unsorted3(keys):
    keys = list(dict.fromkeys(keys))
    return len(keys) >= 3 and keys != sorted(keys)


def features(fmt, spec):
    f = []
    ops = spec["ops"]
    if _unsorted3(o["variant"] for o in ops):
        f.append("%s:variant dict >=3 unsorted" % fmt)
    by_v = {}
    for o in ops:
        by_v.setdefault(o["variant"], []).append(o["arch"])
    if any(_unsorted3(a) for a in by_v.values()):
        f.append("%s:arch dict >=3 unsorted" % fmt)
    if any(k != "Server" and k.lower() == "server" for k in by_v) and "Server" in by_v:
        f.append("%s:keys differing only in case" % fmt)
    if any(ord(c) > 127 for k in by_v for c in k):
        f.append("%s:non-ASCII key" % fmt)
    if any(len(k) >= 300 for k in by_v):
        f.append("%s:key >= 300 chars" % fmt)
    if any(k != k.strip() or "\t" in k or "\u00a0" in k for k in by_v):
        f.append("%s:key with leading/trailing blank, tab or NBSP" % fmt)
    if any(c in k for k in by_v for c in '"\\,/=#%[];'):
        f.append("%s:key containing a delimiter / quote / backslash" % fmt)
    if any(ord(c) > 0xFFFF for k in by_v for c in k) and any(0xD7FF < ord(c) <= 0xFFFF for k in by_v for c in k):
        f.append("%s:astral and high-BMP key in one dict (code-point vs UTF-16 order)" % fmt)
    cells = {}
    for o in ops:
        cells.setdefault((o["variant"], o["arch"]), []).append(o)
    if fmt == "rpms":
        if any(_unsorted3((o.get("srpm") or o["nevra"]) for o in c) for c in cells.values()):
            f.append("rpms:srpm table >=3 unsorted")
        for c in cells.values():
            by_s = {}
            for o in c:
                if o.get("srpm"):
                    by_s.setdefault(o["srpm"].split(":")[-1], []).append(o["nevra"])
            if any(_unsorted3(x) for x in by_s.values()):
                f.append("rpms:rpm table of one srpm >=3 unsorted")
    if fmt == "modules":
        for c in cells.values():
            if _unsorted3(json.dumps(o["uid"]) for o in c):
                f.append("modules:module table >=3 unsorted")
            by_u = {}
            for o in c:
                by_u.setdefault(json.dumps(o["uid"]).split("/")[-1], []).append(o)
            for l in by_u.values():
                if len(set(o["category"] for o in l)) >= 2:
                    f.append("modules:one module added for >= 2 categories (modulemd_path dict)")
                    allr = [x for o in l if isinstance(o.get("rpms"), dict) for x in (o["rpms"].get("list") or o["rpms"].get("tuple") or [])]
                    if len(set(allr)) < len(allr) and len(set(allr)) >= 3:
                        f.append("modules:rpm list with a REPEATED entry across categories, >= 3 distinct")
        if any(isinstance(o.get("rpms"), dict) and (lambda l: len(set(l)) < len(l))(o["rpms"].get("list") or o["rpms"].get("tuple") or []) for o in ops):
            f.append("modules:repeated element inside one rpms argument")
    if fmt == "extra_files":
        for c in cells.values():
            ps = [o["path"] for o in c]
            if len(ps) >= 3 and ps != sorted(ps):
                f.append("extra_files:entry list >=3, not sorted (caller order)")
            if len(set(ps)) < len(ps):
                f.append("extra_files:one path listed twice")
        if any(isinstance(o.get("checksums"), dict) and _unsorted3(o["checksums"]) for o in ops):
            f.append("extra_files:checksum dict >=3 unsorted")
        if any(isinstance(o.get("checksums"), dict) and len(set(k.lower() for k in o["checksums"])) < len(o["checksums"]) for o in ops):
            f.append("extra_files:checksum keys differing only in case")
    cs = [cell_of(fmt, o) for o in ops]
    if any(c is None for c in cs):
        f.append("%s:history with a refused call" % fmt)
    if any(c is None and any(x is not None for x in cs[:i]) and any(x is not None for x in cs[i + 1:]) for i, c in enumerate(cs)):
        f.append("%s:refused call in the MIDDLE of the history" % fmt)
    by_cell = {}
    for c, o in zip(cs, ops):
        if c is not None:
            by_cell.setdefault(json.dumps(c), []).append(o)
    if fmt == "rpms" and any(len(l) >= 2 and any(x != l[0] for x in l[1:]) for l in by_cell.values()):
        f.append("rpms:one slot written >= 2 times with different records (last write wins)")
    if fmt == "rpms" and any(len(l) >= 3 for l in by_cell.values()):
        f.append("rpms:one slot written >= 3 times")
    if fmt == "modules" and any(len(l) >= 2 for l in by_cell.values()):
        f.append("modules:one module entry extended by >= 2 adds")
    if fmt == "extra_files" and any(len(l) >= 2 for l in by_cell.values()):
        f.append("extra_files:same-cell sequence (>= 2 entries appended to one [variant][arch] list)")
    if len(by_cell) >= 2 and any(len(l) >= 2 for l in by_cell.values()):
        f.append("%s:ordered cell interleaved with other cells" % fmt)
    if len(ops) >= 3:
        f.append("%s:>=3 add calls" % fmt)
    if len(set((o["variant"], o["arch"]) for o in ops)) >= 2:
        f.append("%s:>=2 (variant, arch) tables" % fmt)
    if fmt == "modules" and any(len((o["rpms"].get("list") or o["rpms"].get("tuple") or [])) >= 2 for o in ops if isinstance(o.get("rpms"), dict)):
        f.append("modules:rpm list >= 2")
    if fmt == "extra_files" and any(isinstance(o.get("checksums"), dict) and len(o["checksums"]) >= 2 for o in ops):
        f.append("extra_files:>=2 checksum types")
    return f


def model_requests(fmt, spec):
    return [{"op": "bld_roundtrip", "args": {"kind": fmt, "version": "0.0", "compose": spec["compose"], "ops": strip_ops(spec["ops"])}}]


def model_history_request(fmt, spec):
    """per call of the base history: the model's cell (`Mf.*Slot`) and outcome from a fresh manifest"""
    return {"op": "c08_history", "args": {"kind": fmt, "ops": strip_ops(spec["ops"])}}


def model_history(o):
    outs = ["ok" if "ok" in x else str(x.get("err")) for x in o["outcomes"]]
    return {"cells": o["slots"], "outcomes": outs}


def model_text(fmt, o):
    out = o.get("out", {})
    if "ok" in out:
        return out["ok"]["text1"]
    return out


def order_kept(fmt, spec, text):
    """a module's rpm list is written in the caller's order (calls with a unique target only); the extra-file entries of one
    [variant][arch] are written in the order of the accepted calls"""
    if fmt == "extra_files":
        doc = json.loads(text)
        want = {}
        for o in spec["ops"]:
            c = cell_of(fmt, o)
            if c is not None:
                want.setdefault(tuple(c), []).append(o["path"])
        for (v, a), paths in want.items():
            got = [e.get("file") for e in doc["payload"]["extra_files"].get(v, {}).get(a, [])]
            if got != paths:
                return "the entries of extra_files[%r][%r] were added in the order %r and are written in the order %r" % (v, a, paths, got)
        return None
    if fmt != "modules":
        return None
    doc = json.loads(text)
    lists = []

    def walk(x):
        if isinstance(x, dict):
            if isinstance(x.get("rpms"), list) and "metadata" in x:
                lists.append(x["rpms"])
            for v in x.values():
                walk(v)
    walk(doc["payload"]["modules"])
    given = []
    for o in spec["ops"]:
        r = o.get("rpms")
        if isinstance(r, dict) and cell_of(fmt, o) is not None:
            given.append(list(r.get("list") or r.get("tuple") or []))
    def sub(small, big):
        n = len(small)
        return any(big[i:i + n] == small for i in range(len(big) - n + 1))
    for g in given:
        if g and not any(sub(g, l) for l in lists):
            return "the caller's rpm list %r is not written in that order: %r" % (g, lists[:4])
    return None


def shrink(fmt, spec):
    out = []
    for i in range(len(spec["ops"])):
        s = dict(spec, ops=spec["ops"][:i] + spec["ops"][i + 1:])
        out.append(s)
    return out
