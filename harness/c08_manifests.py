"""C08 glue for the three payload-verbatim manifests (rpms / modules / extra_files): the shared adapters of builder
`builders` (harness/formats/{rpms,modules,extra_files}.py) describe a manifest as a list of `add` calls; a rearrangement is
another order of those calls.  Two calls that hit the same key are not commutative ("last write wins"), so the worker reports
the content reached (`content_key`) and only orders that reach the SAME content are compared."""
import hashlib, importlib, json


def F(fmt):
    return importlib.import_module("formats." + fmt)


def strip_ops(ops):
    return [dict((k, v) for k, v in op.items() if k not in ("expect", "why")) for op in ops]


def gen(fmt, rng, tier):
    spec = F(fmt).gen(rng, tier, valid_only=True)
    keyf = {"rpms": lambda o: (o["variant"], o["arch"], o["nevra"].split(":")[-1].split("-")[0] if False else o["nevra"]),
            "modules": lambda o: (o["variant"], o["arch"], json.dumps(o["uid"], sort_keys=True)),
            "extra_files": lambda o: (o["variant"], o["arch"], o["path"])}[fmt]
    seen, ops = set(), []
    for o in strip_ops(spec["ops"]):             # calls that hit the same entry twice do not commute ("last write wins"): keep the first
        k = keyf(o)
        if k not in seen:
            seen.add(k)
            ops.append(o)
    spec["ops"] = ops
    return spec


def permute(fmt, spec, rng):
    """rpms: any order of the add calls (they land in dicts).  modules / extra_files: the calls of one (variant, arch) table keep
    their relative order (extra-file entries are a caller-ordered list; repeated adds of one module concatenate its caller-ordered
    rpm list), the tables are interleaved in any order"""
    if fmt == "rpms":
        rng.shuffle(spec["ops"])
        return spec
    cells = {}
    for o in spec["ops"]:
        cells.setdefault((o["variant"], o["arch"]), []).append(o)
    labels = [k for k, l in cells.items() for _ in l]
    rng.shuffle(labels)
    pos = dict((k, 0) for k in cells)
    out = []
    for k in labels:
        out.append(cells[k][pos[k]])
        pos[k] += 1
    spec["ops"] = out
    return spec


def build(fmt, spec):
    return F(fmt).build(spec)


def content_key(fmt, obj):
    import formats.manifest_common as mc
    m = F(fmt).mapping(obj)
    return hashlib.sha1(json.dumps(mc.enc(m), sort_keys=True).encode()).hexdigest()


def features(fmt, spec):
    f = []
    ops = spec["ops"]
    if len(ops) >= 3:
        f.append("%s:>=3 add calls" % fmt)
    if len(set((o["variant"], o["arch"]) for o in ops)) >= 2:
        f.append("%s:>=2 (variant, arch) tables" % fmt)
    if fmt == "modules" and any(len((o["rpms"].get("list") or o["rpms"].get("tuple") or [])) >= 2 for o in ops if isinstance(o.get("rpms"), dict)):
        f.append("modules:rpm list >= 2")
    if fmt == "extra_files" and any(isinstance(o.get("checksums"), dict) and len(o["checksums"]) >= 2 for o in ops):
        f.append("extra_files:>=2 checksum types")
    return f


def model_requests(fmt, spec):
    return [{"op": "bld_roundtrip", "args": {"kind": fmt, "version": "0.0", "compose": spec["compose"], "ops": strip_ops(spec["ops"])}}]


def model_text(fmt, o):
    out = o.get("out", {})
    if "ok" in out:
        return out["ok"]["text1"]
    return out


def order_kept(fmt, spec, text):
    """a module's rpm list is written in the caller's order (calls with a unique target only)"""
    if fmt != "modules":
        return None
    doc = json.loads(text)
    lists = []

    def walk(x):
        if isinstance(x, dict):
            if isinstance(x.get("rpms"), list) and "metadata" in x:
                lists.append(x["rpms"])
            for v in x.values():
                walk(v)
    walk(doc["payload"]["modules"])
    given = []
    for o in spec["ops"]:
        r = o.get("rpms")
        if isinstance(r, dict):
            given.append(list(r.get("list") or r.get("tuple") or []))
    def sub(small, big):
        n = len(small)
        return any(big[i:i + n] == small for i in range(len(big) - n + 1))
    for g in given:
        if g and not any(sub(g, l) for l in lists):
            return "the caller's rpm list %r is not written in that order: %r" % (g, lists[:4])
    return None


def shrink(fmt, spec):
    out = []
    for i in range(len(spec["ops"])):
        s = dict(spec, ops=spec["ops"][:i] + spec["ops"][i + 1:])
        out.append(s)
    return out
