"""
Shared real-side adapter for composeinfo (used by C01, reusable by C05/C06/C07/C08/C18).

A compose description travels as a JSON-able *spec* (also the wire format of the Lean driver ops `composeinfo_*`):

    spec    = {"compose": {"id","type","date","respin","label"|None,"final"},
               "release": {"name","short","version","type","is_layered","internal"},
               "base_product": {"name","short","version","type"} | None,       # None = never filled in
               "variants": [variant, ...]}                                       # insertion order of the dict
    variant = {"key": dict key it is stored under (== id when added through add()),
               "id","uid","name","type", "arches": [..],
               "paths": {category: {arch: path}},                              # any subset of the 14 categories
               "release": {...as above...} | None,                             # None = the blank Release of Variant.__init__
               "variants": [variant, ...]}
    snap() additionally reports "parent": uid of v.parent | None for every variant.

    gen(rng, tier)      -> spec      generator following the quantifier of C01 (path values incl. boundary spellings)
    gen_style(rng)      -> style     one of the equivalent ways of filling the objects (assign vs in-place add/update of
                                     `arches`, of the path dicts; add(v) before or after v's children)
    build(spec, raw, style) -> ComposeInfo   through the public API; raw=True files the variants directly in the dicts
                                     (no validation at add time) so that the *writer's* refusals can be observed
    build_interleaved(specs, ..) -> [ComposeInfo]  several constructions interleaved in one process
    same_description(spec, snapshot) -> None | (observed, expected)   what the objects hold vs what was put in
    snap(ci)            -> spec'     every public attribute of the object graph
    norm(spec)          -> spec'     what a write/read cycle is documented to keep (oracle side, independent of the model)
    canon(spec)         -> spec'     order-insensitive form (dicts/sets have no order): children sorted by key, arches sorted

Nothing here imports productmd at module import time: call `checklib.use_repo()` first (PRODUCTMD_REPO).
"""
import copy

LP = "layered-product"

ARCH_POOL = ["x86_64", "i386", "ppc64le", "aarch64", "s390x", "armhfp", "src"]
NAME_POOL = ["Fedora", "Red Hat Enterprise Linux", "X \xe9", "a b", 'q"uo\\te', "tab\there", "\U0001f600 astral", "n", " lead", "\u2028sep", "\x7f"]
SHORT_POOL = ["F", "rhel", "My-Prod", "sat", "RHEL"]
VERSION_POOL = ["22", "7.1", "Rawhide", "1.2.3", "5", "x 1", "rawhide-2", "10.0.1.2", "\xe9t\xe9"]


def tables():
    """the library's own tables, read from the tree under test"""
    import productmd.composeinfo as c
    import productmd.common as m
    fields = list(c.VariantPaths(c.Variant(c.ComposeInfo()))._fields)
    return {"release_types": list(m.RELEASE_TYPES), "compose_types": list(c.COMPOSE_TYPES), "label_names": list(c.LABEL_NAMES),
            "variant_types": list(c.VARIANT_TYPES), "categories": fields}


# the 14 documented categories (class docstring of VariantPaths); the oracle uses this list, not the code's `_fields`
CATEGORIES = ["os_tree", "packages", "repository", "isos", "images", "jigdos",
              "source_tree", "source_packages", "source_repository", "source_isos", "source_jigdos",
              "debug_tree", "debug_packages", "debug_repository"]
COMPOSE_SUFFIX = {"production": "", "ci": ".ci", "nightly": ".n", "test": ".t", "development": ".d"}


class Gen(object):
    """stateful generator: enumeration values are used round-robin so that every documented value is covered"""

    def __init__(self, rng, tier="quick"):
        self.rng = rng
        self.tier = tier
        self.n = 0
        self.T = tables()

    def rr(self, table, salt=0):
        return table[(self.n + salt) % len(table)]

    def release(self, salt=0):
        r = self.rng
        return {"name": r.choice(NAME_POOL), "short": r.choice(SHORT_POOL), "version": r.choice(VERSION_POOL),
                "type": self.rr(self.T["release_types"], salt), "is_layered": False, "internal": r.random() < 0.3}

    def path_value(self, base):
        """a path value: mostly plain, otherwise one of the boundary spellings (paths are opaque strings to the format)"""
        r = self.rng
        if r.random() < 0.6:
            return base
        k = self.pathn = getattr(self, "pathn", 0) + 1
        shapes = [lambda b: b + "/", lambda b: b + "//", lambda b: b.replace("/", "//", 1), lambda b: "./" + b, lambda b: "/" + b,
                  lambda b: b + "/.", lambda b: "../" + b, lambda b: " " + b, lambda b: b + " ", lambda b: b.replace("/", " / ", 1),
                  lambda b: b + "/\xe9t\xe9/\u65e5\u672c", lambda b: b + "/\U0001f600", lambda b: b + "/" + "x" * 300, lambda b: "/",
                  lambda b: "//", lambda b: b + '/q"uo\\te', lambda b: b + "\t", lambda b: b.upper(), lambda b: b + "/%(arch)s/$basearch",
                  lambda b: b + "\n", lambda b: "0", lambda b: " "]
        return shapes[k % len(shapes)](base)

    def variant(self, parent, depth, maxdepth, counter):
        r = self.rng
        counter[0] += 1
        vid = "V%d%s" % (counter[0], r.choice(["", "x", "Z", "9"]))
        dashed = False
        if parent is None:
            if r.random() < 0.3 and len(vid) > 1:
                k = r.randint(1, len(vid) - 1)
                uid = vid[:k] + "-" + vid[k:]
                dashed = True
            else:
                uid = vid
        else:
            uid = parent["uid"] + "-" + vid
        vtypes = self.T["variant_types"]
        vtype = vtypes[(self.n + counter[0]) % len(vtypes)] if r.random() < 0.7 else r.choice(vtypes)
        pool = sorted(parent["arches"]) if parent is not None else ARCH_POOL
        arches = r.sample(pool, r.randint(1, len(pool)))
        v = {"key": vid, "id": vid, "uid": uid, "name": r.choice(NAME_POOL[:8]).strip() or "n", "type": vtype, "arches": arches,
             "paths": {}, "release": None, "variants": []}
        if vtype == LP:
            v["release"] = self.release(counter[0])
            v["release"]["is_layered"] = r.random() < 0.5
        elif r.random() < 0.04:
            v["release"] = self.release(counter[0])       # stray release on a variant that is no layered product
            v["release"]["is_layered"] = True
        cats = self.T["categories"]
        mode = r.random()
        if mode < 0.15:
            chosen = []
        elif mode < 0.3:
            chosen = list(cats)
        else:
            chosen = r.sample(cats, r.randint(1, min(6, len(cats))))
            chosen.append(cats[(self.n + counter[0]) % len(cats)])      # round-robin: every category incl. the last
        for cat in chosen:
            d = v["paths"].setdefault(cat, {})
            for a in r.sample(ARCH_POOL, r.randint(1, 4)) + [r.choice(arches)]:
                roll = r.random()
                d[a] = "" if roll < 0.12 else self.path_value("%s/%s/%s" % (uid, a, cat))
        if depth < maxdepth and not (dashed and r.random() < 0.7):
            for _ in range(r.choice([0, 0, 1, 2, 3] if depth < 3 else [0, 1])):
                v["variants"].append(self.variant(v, depth + 1, maxdepth, counter))
        return v

    def spec(self):
        r = self.rng
        self.n += 1
        rel = self.release()
        base = None
        if r.random() < 0.4:
            rel["is_layered"] = True
            base = self.release(3)
            base = dict((k, base[k]) for k in ("name", "short", "version", "type"))
        elif r.random() < 0.15:
            b = self.release(5)                 # base product filled in although the release is not layered: not stored
            base = dict((k, b[k]) for k in ("name", "short", "version", "type"))
        ctype = self.rr(self.T["compose_types"])
        date = "%08d" % r.randrange(10 ** 8)
        respin = r.choice([0, 1, 2, 12, 99, 2 ** 53 + 1, -3, 10 ** 20 + 7])
        cid = "%s-%s-%s%s.%d" % (rel["short"], rel["version"], date, COMPOSE_SUFFIX.get(ctype, ""), abs(respin))
        labels = self.T["label_names"]
        label = None
        k = self.n % (len(labels) + 2)
        if k < len(labels):
            label = "%s-%d.%d" % (labels[k], r.randrange(20), r.randrange(20))
        final = r.random() < 0.5
        maxdepth = r.choice([1, 2, 3, 3, 4])
        counter = [0]
        variants = [self.variant(None, 1, maxdepth, counter) for _ in range(r.randint(1, 3) if r.random() < 0.95 else 0)]
        return {"compose": {"id": cid, "type": ctype, "date": date, "respin": respin, "label": label, "final": final},
                "release": rel, "base_product": base, "variants": variants}


def gen(rng, tier="quick"):
    return Gen(rng, tier).spec()


def walk(spec):
    """every variant of the forest with its parent (pre-order)"""
    out = []

    def rec(vs, parent):
        for v in vs:
            out.append((v, parent))
            rec(v["variants"], v)
    rec(spec["variants"], None)
    return out


# ------------------------------------------------------------------------------------------------- real side
STYLES = {"arches": ["assign", "add", "update", "ior"],          # how the documented set attribute is filled
          "paths": ["update", "item", "assign"],                   # how the documented path dicts are filled
          "order": ["parent-first", "kids-first"],                 # add(v) before or after v's own children are added
          "release": ["attrs"]}
DEFAULT_STYLE = {"arches": "assign", "paths": "update", "order": "parent-first", "release": "attrs"}


def gen_style(rng):
    """one way of using the public API to put a description into the objects (all equivalent by the documentation)"""
    return dict((k, rng.choice(v)) for k, v in sorted(STYLES.items()))


def _build_steps(spec, raw, style):
    """generator: performs the construction step by step (yields between the steps so that two constructions can be
    interleaved in one process); the finished ComposeInfo is the generator's return value"""
    from productmd.composeinfo import ComposeInfo, Variant
    st = dict(DEFAULT_STYLE, **(style or {}))
    ci = ComposeInfo()
    yield
    c = spec["compose"]
    ci.compose.id, ci.compose.type, ci.compose.date, ci.compose.respin = c["id"], c["type"], c["date"], c["respin"]
    ci.compose.label, ci.compose.final = c["label"], c["final"]

    def fill(obj, r, full):
        obj.name, obj.short, obj.version, obj.type = r["name"], r["short"], r["version"], r["type"]
        if full:
            obj.is_layered, obj.internal = r["is_layered"], r["internal"]
    fill(ci.release, spec["release"], True)
    if spec.get("base_product") is not None:
        fill(ci.base_product, spec["base_product"], False)
    yield

    def place(container, parent, s, v):
        if raw or (s["key"] != s["id"] and parent is not None):
            container.variants[s["key"]] = v
            if parent is not None:
                v.parent = parent
        elif s["key"] != s["id"]:
            container.add(v, variant_id=s["key"])
        else:
            container.add(v)

    def mk(vs, parent):
        container = ci.variants if parent is None else parent
        for s in vs:
            v = Variant(ci)
            v.id, v.uid, v.name, v.type = s["id"], s["uid"], s["name"], s["type"]
            if st["arches"] == "assign":
                v.arches = set(s["arches"])
            elif st["arches"] == "add":
                for a in s["arches"]:
                    v.arches.add(a)
            elif st["arches"] == "update":
                v.arches.update(s["arches"])
            else:
                v.arches |= set(s["arches"])
            yield
            for cat, d in s["paths"].items():
                if not hasattr(v.paths, cat):
                    setattr(v.paths, cat, {})
                if st["paths"] == "update":
                    getattr(v.paths, cat).update(d)
                elif st["paths"] == "item":
                    for a, p in d.items():
                        getattr(v.paths, cat)[a] = p
                else:
                    setattr(v.paths, cat, dict(d))
            if s.get("release") is not None:
                fill(v.release, s["release"], True)
            yield
            if st["order"] == "kids-first" and not raw:
                # the subtree is assembled first; the variant needs its parent pointer for nothing before add()
                for _ in mk(s["variants"], v):
                    yield
                place(container, parent, s, v)
            else:
                place(container, parent, s, v)
                for _ in mk(s["variants"], v):
                    yield
            yield
    for _ in mk(spec["variants"], None):
        yield
    return ci


def _drive(gens):
    """run generators round-robin to completion; -> their return values"""
    out = [None] * len(gens)
    live = list(range(len(gens)))
    while live:
        for i in list(live):
            try:
                next(gens[i])
            except StopIteration as e:
                out[i] = e.value
                live.remove(i)
    return out


def build(spec, raw=False, style=None):
    """assemble the object graph through the public API (attribute assignment / in-place filling of the documented
    containers, add()); `style` picks among equivalent ways of doing so (see STYLES); raw=True bypasses add()
    (direct dict insertion) so that the *writer's* refusals can be observed"""
    return _drive([_build_steps(spec, raw, style)])[0]


def build_interleaved(specs, raws=None, styles=None):
    """several descriptions assembled in ONE process with their construction steps interleaved (hidden shared state
    between objects — class-level or default-argument containers, caches — shows as cross-talk)"""
    n = len(specs)
    raws = raws or [False] * n
    styles = styles or [None] * n
    return _drive([_build_steps(specs[i], raws[i], styles[i]) for i in range(n)])


def same_description(spec, snapshot, force_layered=False):
    """None if the snapshot of an object graph holds exactly the description `spec` (as put in, before any write),
    else the first difference.  Representation only: dicts/sets unordered, an absent category = an empty dict."""
    a, b = canon(strip_parent(spec)), canon(strip_parent(snapshot))
    for side in (a, b):
        for v, _ in walk(side):
            v["paths"] = dict((c, t) for c, t in v["paths"].items() if t)
            if force_layered and v["type"] == LP and v["release"] is not None:
                v["release"]["is_layered"] = True
    return None if a == b else (b, a)


def _rel(r, full):
    d = {"name": r.name, "short": r.short, "version": r.version, "type": r.type}
    if full:
        d["is_layered"] = r.is_layered
        d["internal"] = r.internal
    return d


def snap(ci):
    """every public attribute; an untouched base product / variant release is reported as None"""
    def rel_or_none(d, blank):
        return None if d == blank else d

    def sv(key, v):
        paths = {}
        for cat in v.paths._fields:
            paths[cat] = dict(getattr(v.paths, cat))
        return {"key": key, "id": v.id, "uid": v.uid, "name": v.name, "type": v.type, "arches": sorted(v.arches),
                "parent": (v.parent.uid if v.parent is not None else None), "paths": paths,
                "release": rel_or_none(_rel(v.release, True), {"name": None, "short": None, "version": None, "type": None,
                                                                "is_layered": True, "internal": False}),
                "variants": [sv(k, x) for k, x in v.variants.items()]}
    c = ci.compose
    return {"compose": {"id": c.id, "type": c.type, "date": c.date, "respin": c.respin, "label": c.label, "final": c.final},
            "release": _rel(ci.release, True),
            "base_product": rel_or_none(_rel(ci.base_product, False), {"name": None, "short": None, "version": None, "type": None}),
            "variants": [sv(k, v) for k, v in ci.variants.variants.items()]}


# ------------------------------------------------------------------------------------------------- oracle side
def norm(spec):
    """the documented normal form of a description: what must come back from a write/read cycle"""
    s = copy.deepcopy(spec)
    c = s["compose"]
    if not c["label"]:
        c["label"] = None
        c["final"] = False                       # 'final' is only stored next to a label
    s["release"]["type"] = s["release"]["type"].lower()      # case-folded (no-op on every writable type)
    if not s["release"]["is_layered"]:
        s["base_product"] = None                  # base product only when layered

    def nv(v, parent):
        arches = sorted(set(v["arches"]))
        paths = {}
        for cat in CATEGORIES:
            src = v["paths"].get(cat, {})
            paths[cat] = dict((a, src[a]) for a in arches if src.get(a))       # empty / foreign-arch paths are not stored
        rel = None
        if v["type"] == LP and v["release"] is not None:
            rel = dict(v["release"], is_layered=True)
            rel["type"] = rel["type"].lower()
        out = {"key": v["id"], "id": v["id"], "uid": v["uid"], "name": v["name"], "type": v["type"], "arches": arches,
               "parent": parent, "paths": paths, "release": rel}
        out["variants"] = sorted((nv(k, v["uid"]) for k in v["variants"]), key=lambda x: x["id"])
        return out
    s["variants"] = sorted((nv(v, None) for v in s["variants"]), key=lambda x: x["uid"])
    return s


def canon(spec):
    """order-insensitive form of a spec or snapshot"""
    s = copy.deepcopy(spec)

    def cv(v):
        v["arches"] = sorted(set(v["arches"]))
        v["variants"] = sorted((cv(k) for k in v["variants"]), key=lambda x: (x["key"], x["uid"]))
        return v
    s["variants"] = sorted((cv(v) for v in s["variants"]), key=lambda x: (x["key"], x["uid"]))
    return s


def strip_parent(spec):
    """spec without the derived "parent" fields (wire format for the driver)"""
    s = copy.deepcopy(spec)
    for v, _ in walk(s):
        v.pop("parent", None)
    return s
