"""
Shared real-side adapter for composeinfo (used by C01, reusable by C05/C06/C07/C08/C18).

A compose description travels as a JSON-able *spec* (also the wire format of the Lean driver ops `composeinfo_*`):

    spec    = {"compose": {"id","type","date","respin","label"|None,"final"},
               "release": {"name","short","version","type","is_layered","internal"},
               "base_product": {"name","short","version","type"} | None,       # None = never filled in
               "variants": [variant, ...]}                                       # insertion order of the dict
    variant = {"key": dict key it is stored under (== id when added through add()),
               "id","uid","name","type", "arches": [..],
               "paths": {category: {arch: path}},                              # any subset of the 14 categories
               "release": {...as above...} | None,                             # None = the blank Release of Variant.__init__
               "variants": [variant, ...]}
    snap() additionally reports "parent": uid of v.parent | None for every variant.

    gen(rng, tier)      -> spec      generator following the quantifier of C01 (path values incl. boundary spellings)
    gen_style(rng)      -> style     one of the equivalent ways of filling the objects (assign vs in-place add/update of
                                     `arches`, of the path dicts; add(v) before or after v's children)
    build(spec, raw, style) -> ComposeInfo   through the public API; raw=True files the variants directly in the dicts
                                     (no validation at add time) so that the *writer's* refusals can be observed
    build_interleaved(specs, ..) -> [ComposeInfo]  several constructions interleaved in one process
    same_description(spec, snapshot) -> None | (observed, expected)   what the objects hold vs what was put in
    snap(ci)            -> spec'     every public attribute of the object graph
    norm(spec)          -> spec'     what a write/read cycle is documented to keep (oracle side, independent of the model)
    canon(spec)         -> spec'     order-insensitive form (dicts/sets have no order): children sorted by key, arches sorted

Nothing here imports productmd at module import time: call `checklib.use_repo()` first (PRODUCTMD_REPO).
"""
import copy

LP = "layered-product"

ARCH_POOL = ["x86_64", "i386", "ppc64le", "aarch64", "s390x", "armhfp", "src"]
NAME_POOL = ["Fedora", "Red Hat Enterprise Linux", "X \xe9", "a b", 'q"uo\\te', "tab\there", "\U0001f600 astral", "n", " lead", "\u2028sep", "\x7f"]
SHORT_POOL = ["F", "rhel", "My-Prod", "sat", "RHEL"]
VERSION_POOL = ["22", "7.1", "Rawhide", "1.2.3", "5", "x 1", "rawhide-2", "10.0.1.2", "\xe9t\xe9"]


def tables():
    """the library's own tables, read from the tree under test"""
    import productmd.composeinfo as c
    import productmd.common as m
    fields = list(c.VariantPaths(c.Variant(c.ComposeInfo()))._fields)
    return {"release_types": list(m.RELEASE_TYPES), "compose_types": list(c.COMPOSE_TYPES), "label_names": list(c.LABEL_NAMES),
            "variant_types": list(c.VARIANT_TYPES), "categories": fields}


# the 14 documented categories (class docstring of VariantPaths); the oracle uses this list, not the code's `_fields`
CATEGORIES = ["os_tree", "packages", "repository", "isos", "images", "jigdos",
              "source_tree", "source_packages", "source_repository", "source_isos", "source_jigdos",
              "debug_tree", "debug_packages", "debug_repository"]
COMPOSE_SUFFIX = {"production": "", "ci": ".ci", "nightly": ".n", "test": ".t", "development": ".d"}


# ---- documented enumerations (property text: 9 release types, 5 compose types, 10 label names, 4 variant types, 14 categories);
# the generator enumerates the UNION of these and the code's own tables, so a value the code lost is still generated
DOC_RELEASE_TYPES = ["fast", "ga", "updates", "updates-testing", "eus", "aus", "els", "tus", "e4s"]
DOC_COMPOSE_TYPES = ["test", "ci", "nightly", "production", "development"]
DOC_LABEL_NAMES = ["EA", "DevelPhaseExit", "InternalAlpha", "Alpha", "InternalSnapshot", "Beta", "Snapshot", "RC", "Update", "SecurityFix"]
DOC_VARIANT_TYPES = ["variant", "optional", "addon", "layered-product"]

# ---- boundary pools (GENERATOR_AUDIT.md section A); every pool is used round-robin, so each entry is reached
LONG = "L" + "o" * 300 + "ng"
TEXT_BOUNDARY = ["", " ", "\xa0", "a  b", " lead", "trail ", "tab\there", "a-b", "a.b", "a:b", "a/b", "a@b", "a,b;c=d#e%f[g]h", 'q"uo\'te\\back',
                 "--", "..", "//", "\xe9ł日本", "٣７", "\U0001f600 astral", LONG, "None", "null", "0", "False", "1.0", " sep", "\x7f",
                 "line\nfeed", "UPPER", "upper", "Upper"]
VERSION_BOUNDARY = ["0", "00", "1.0", "1" * 300, "1.2.3.4.5.6.7.8.9.10", "٣", "７.1", " 1", "-1", ".5", "None", "null", "False", "v", "Rawhide\n",
                    "1.2\n", "x\ty", "\xa0", " ", "a@b", "a-b-c", "r#;=,:[]'\"\\%", LONG, "RAWHIDE", "rawhide", "10", "9.10"]
DATE_BOUNDARY = ["00000000", "99999999", "٢٠٢٠٠١٠١", "２０２００１０１", "20200101\n", "19700101", "20200229"]
RESPIN_POOL = [0, 1, -1, 2, 10, 12, 99, 2 ** 31, 2 ** 32 + 7, 2 ** 53 + 1, 2 ** 63 - 1, 10 ** 7, 10 ** 8, -3, 10 ** 20 + 7]
LABEL_VERSION_BOUNDARY = ["0.0", "10.10", "1.0\n", "１.０", "1" * 40 + ".0", "007.00", "1.23"]
ARCH_BOUNDARY = ["ppc", "ppc64", "ppc64le", "X86_64", "x86_64", "noarch", "nosrc", "\xe1rch", "a-b", "a/b", "a b", "", "A" * 300, "None", "0", "i686", "I386"]
ID_BOUNDARY = ["a", "7", "Z" * 300, "S\n", "0a", "A0"]
FOREIGN_CATEGORIES = ["OS_TREE", "identity2", "source_isossource_jigdos", "os_tree "]
PATH_SHAPES = [lambda b: b + "/", lambda b: b + "//", lambda b: b.replace("/", "//", 1), lambda b: "./" + b, lambda b: "/" + b,
               lambda b: b + "/.", lambda b: "../" + b, lambda b: " " + b, lambda b: b + " ", lambda b: b.replace("/", " / ", 1),
               lambda b: b + "/\xe9t\xe9/日本", lambda b: b + "/\U0001f600", lambda b: b + "/" + "x" * 300, lambda b: "/",
               lambda b: "//", lambda b: b + '/q"uo\\te', lambda b: b + "\t", lambda b: b.upper(), lambda b: b + "/%(arch)s/$basearch",
               lambda b: b + "\n", lambda b: "0", lambda b: " ", lambda b: b + "/" + b.split("/")[0], lambda b: b + "/" + b,
               lambda b: b + "/a#b;c=d,e:f@g[h]'i", lambda b: "None", lambda b: "null", lambda b: "False", lambda b: "1.0", lambda b: "\xa0",
               lambda b: b + "/../" + b.split("/")[-1], lambda b: b.lower(), lambda b: b + "/٣７"]


class Gen(object):
    """stateful generator: enumeration values AND boundary pools are used round-robin so that every entry is covered"""

    def __init__(self, rng, tier="quick"):
        self.rng = rng
        self.tier = tier
        self.n = 0
        self.T = tables()
        self.T["release_types"] = self.T["release_types"] + [x for x in DOC_RELEASE_TYPES if x not in self.T["release_types"]]
        self.T["compose_types"] = self.T["compose_types"] + [x for x in DOC_COMPOSE_TYPES if x not in self.T["compose_types"]]
        self.T["label_names"] = self.T["label_names"] + [x for x in DOC_LABEL_NAMES if x not in self.T["label_names"]]
        self.T["variant_types"] = self.T["variant_types"] + [x for x in DOC_VARIANT_TYPES if x not in self.T["variant_types"]]
        self.T["categories"] = self.T["categories"] + [x for x in CATEGORIES if x not in self.T["categories"]]
        self.cnt = {}

    def rr(self, table, salt=0):
        return table[(self.n + salt) % len(table)]

    def nxt(self, pool_name, pool):
        """next entry of a boundary pool (round-robin per pool)"""
        k = self.cnt.get(pool_name, 0)
        self.cnt[pool_name] = k + 1
        return pool[k % len(pool)]

    def text(self, plain, attr, p=0.3, nonblank=False):
        """a free-text attribute: mostly from the plain pool, otherwise the next boundary value"""
        if self.rng.random() >= p:
            return self.rng.choice(plain)
        v = self.nxt("text:" + attr, TEXT_BOUNDARY)
        return "n" if (nonblank and not v) else v

    def version(self):
        return self.nxt("version", VERSION_BOUNDARY) if self.rng.random() < 0.3 else self.rng.choice(VERSION_POOL)

    def release(self, salt=0):
        r = self.rng
        return {"name": self.text(NAME_POOL, "name"), "short": self.text(SHORT_POOL, "short"), "version": self.version(),
                "type": self.rr(self.T["release_types"], salt), "is_layered": False, "internal": r.random() < 0.3}

    def path_value(self, base):
        """a path value: mostly plain, otherwise one of the boundary spellings (paths are opaque strings to the format)"""
        if self.rng.random() < 0.6:
            return base
        return self.nxt("path", PATH_SHAPES)(base)

    def variant_id(self, counter, siblings):
        r = self.rng
        counter[0] += 1
        roll = r.random()
        used = set(x["id"] for x in siblings)
        cand = None
        if roll < 0.08:
            cand = self.nxt("id", ID_BOUNDARY)
        elif roll < 0.16 and siblings:
            cand = siblings[-1]["id"].swapcase()                 # a sibling key that differs only in case
        elif roll < 0.24 and siblings and "\n" not in siblings[-1]["id"]:
            cand = siblings[-1]["id"] + "x"                      # a sibling id extended (one UID a prefix of the other)
        elif roll < 0.36 and self.all_ids:
            # an id that already occurs ELSEWHERE in the forest (another parent / another level): ids are unique among siblings
            # only, e.g. top-level `Tools` next to the add-on `Server-Tools`; readers must tell variants apart by UID, not by id
            free = sorted(i for i in self.all_ids if i not in used)
            if free:
                return free[r.randrange(len(free))]
        while cand is None or cand in used or cand in self.all_ids:
            # the leading letter varies, so the insertion order of siblings differs from every sorted order
            cand = "%s%d%s" % (r.choice(["V", "a", "Z", "b", "0", "m"]), counter[0], r.choice(["", "x", "Z", "q"]))
            counter[0] += 1
        self.all_ids.add(cand)
        return cand

    def arches(self, parent):
        r = self.rng
        if parent is not None:
            pool = sorted(parent["arches"])
            return r.sample(pool, r.randint(1, len(pool)))
        out = r.sample(ARCH_POOL, r.randint(1, len(ARCH_POOL)))
        if r.random() < 0.35:
            for _ in range(r.randint(1, 3)):
                a = self.nxt("arch", ARCH_BOUNDARY)
                if a not in out:
                    out.insert(r.randint(0, len(out)), a)
        return out

    def variant(self, parent, depth, maxdepth, counter, siblings=()):
        r = self.rng
        vid = self.variant_id(counter, list(siblings))
        dashed = False
        if parent is None:
            if r.random() < 0.3 and len(vid) > 1 and "\n" not in vid:
                k = r.randint(1, min(len(vid) - 1, 6))
                uid = vid[:k] + "-" + vid[k:]
                dashed = True
            else:
                uid = vid
        else:
            uid = parent["uid"] + "-" + vid
        vtypes = self.T["variant_types"]
        vtype = vtypes[(self.n + counter[0]) % len(vtypes)] if r.random() < 0.7 else r.choice(vtypes)
        arches = self.arches(parent)
        v = {"key": vid, "id": vid, "uid": uid, "name": self.text(NAME_POOL, "vname", nonblank=True) or "n", "type": vtype, "arches": arches,
             "paths": {}, "release": None, "variants": []}
        if vtype == LP:
            v["release"] = self.release(counter[0])
            v["release"]["is_layered"] = r.random() < 0.5
        elif r.random() < 0.04:
            v["release"] = self.release(counter[0])       # stray release on a variant that is no layered product
            v["release"]["is_layered"] = True
        cats = self.T["categories"]
        mode = r.random()
        if mode < 0.15:
            chosen = []
        elif mode < 0.3:
            chosen = list(cats)
        else:
            chosen = r.sample(cats, r.randint(1, min(6, len(cats))))
            chosen.append(cats[(self.n + counter[0]) % len(cats)])      # round-robin: every category incl. the last
        if r.random() < 0.08:
            chosen.append(self.nxt("foreigncat", FOREIGN_CATEGORIES))    # an attribute that is none of the categories: ignored
        for cat in chosen:
            d = v["paths"].setdefault(cat, {})
            bucket = r.random()
            if bucket < 0.06:
                continue                                                  # an empty bucket that still exists
            pool = ARCH_POOL + [a for a in arches if a not in ARCH_POOL]
            picks = r.sample(pool, r.randint(1, min(4, len(pool)))) + ([r.choice(arches)] if bucket > 0.12 else [])
            for a in picks:
                if bucket < 0.12 and a in arches:
                    d[a] = ""                                             # a bucket holding nothing that is stored
                else:
                    d[a] = "" if r.random() < 0.12 else self.path_value("%s/%s/%s" % (uid[:40], a[:20], cat))
        if depth < maxdepth and not (dashed and r.random() < 0.7):
            for _ in range(r.choice([0, 0, 1, 2, 3] if depth < 3 else [0, 1])):
                v["variants"].append(self.variant(v, depth + 1, maxdepth, counter, v["variants"]))
        return v

    def compose_id(self, short, version, date, ctype, respin):
        r = self.rng
        base = "%s-%s-%s%s.%d" % (short, version, date if date.isascii() and "\n" not in date else "20200101", COMPOSE_SUFFIX.get(ctype, ""), abs(respin))
        base = base.replace("\n", "")
        if r.random() >= 0.3:
            return base
        other_date = "%08d" % r.randrange(10 ** 8)
        shapes = ["20200101", " 20200101 ", "x%s.n.1-extra" % other_date, "F-22-99999999", "\xe9日-%s.t.3" % other_date,
                  "٢٠٢٠٠١٠١", base + "\n", LONG + other_date, 'q"\\-%s' % other_date,
                  "F-22-%s.nightly.7" % other_date, "F-22-%s.ci.1" % other_date, "00000000.0", "%s%s" % (other_date, other_date),
                  "a\t%s" % other_date]
        return self.nxt("cid", shapes)                 # decoupled from compose.date / type / respin

    def spec(self):
        r = self.rng
        self.n += 1
        self.all_ids = set()
        rel = self.release()
        base = None
        if r.random() < 0.4:
            rel["is_layered"] = True
            base = self.release(3)
            base = dict((k, base[k]) for k in ("name", "short", "version", "type"))
        elif r.random() < 0.15:
            b = self.release(5)                 # base product filled in although the release is not layered: not stored
            base = dict((k, b[k]) for k in ("name", "short", "version", "type"))
        ctype = self.rr(self.T["compose_types"])
        date = self.nxt("date", DATE_BOUNDARY) if r.random() < 0.15 else "%08d" % r.randrange(10 ** 8)
        respin = self.nxt("respin", RESPIN_POOL)
        cid = self.compose_id(rel["short"], rel["version"], date, ctype, respin)
        labels = self.T["label_names"]
        label = None
        k = self.n % (len(labels) + 2)
        if k < len(labels):
            ver = self.nxt("labelver", LABEL_VERSION_BOUNDARY) if r.random() < 0.25 else "%d.%d" % (r.randrange(20), r.randrange(20))
            label = "%s-%s" % (labels[k], ver)
        final = r.random() < 0.5
        maxdepth = r.choice([1, 2, 3, 3, 4])
        counter = [0]
        variants = []
        for _ in range(r.choice([1, 2, 3, 3, 5]) if r.random() < 0.95 else 0):
            variants.append(self.variant(None, 1, maxdepth, counter, variants))
        return {"compose": {"id": cid, "type": ctype, "date": date, "respin": respin, "label": label, "final": final},
                "release": rel, "base_product": base, "variants": variants}

    # ---- values the library accepts although they lie outside the typed model (bool is an int; `final` is not looked at
    # without a label; a path is any truthy value): oracle only
    def untyped(self, spec):
        r = self.rng
        s = copy.deepcopy(spec)
        k = self.nxt("untyped", ["respin_bool", "final_odd", "path_nonstr", "path_falsy"])
        vs = [v for v, _ in walk(s)]
        if k == "respin_bool":
            s["compose"]["respin"] = self.nxt("bool", [True, False])
        elif k == "final_odd":
            s["compose"]["label"] = None
            s["compose"]["final"] = self.nxt("finalodd", [None, 0, 1, "yes", "", [], {"a": 1}, 0.0])
        elif vs:
            v = r.choice(vs)
            cat = r.choice(CATEGORIES)
            a = r.choice(v["arches"])
            pool = [5, True, ["a", "b"], {"a": "b"}, 2.5] if k == "path_nonstr" else [None, 0, False, [], {}, 0.0]
            v["paths"].setdefault(cat, {})[a] = self.nxt(k, pool)
        return k, s

    # ---- a short history of public mutations of an existing description (GENERATOR_AUDIT.md B2)
    def history(self, spec):
        r = self.rng
        s = copy.deepcopy(spec)
        ops = []
        for _ in range(r.randint(1, 3)):
            vs = walk(s)
            kinds = ["set_label"] + (["set_path", "del_path", "add_variant", "del_variant", "add_arch"] if vs else ["add_variant"])
            k = self.nxt("history", kinds) if vs else r.choice(kinds)
            if k == "set_label":
                lab = None if r.random() < 0.4 else "%s-%d.%d" % (self.rr(self.T["label_names"], len(ops)), r.randrange(9), r.randrange(9))
                op = {"op": "set_label", "label": lab, "final": r.random() < 0.5}
            elif k == "set_path":
                v, _ = r.choice(vs)
                a = r.choice(v["arches"] + ["mips"])
                op = {"op": "set_path", "uid": v["uid"], "cat": r.choice(CATEGORIES), "arch": a, "path": self.path_value("new/%s" % a[:10])}
            elif k == "del_path":
                cands = [(v, c, a) for v, _ in vs for c, t in v["paths"].items() if c in CATEGORIES for a in t
                         if a in v["arches"] and t[a]]          # a stored cell: present in the re-read object too
                if not cands:
                    continue
                v, c, a = r.choice(cands)
                op = {"op": "del_path", "uid": v["uid"], "cat": c, "arch": a}
            elif k == "add_variant":
                parent = r.choice([None] + [v for v, _ in vs if "\n" not in v["uid"]]) if vs else None
                counter = [1000 + len(ops)]
                sib = parent["variants"] if parent is not None else s["variants"]
                nv = self.variant(parent, 9, 9, counter, sib)
                op = {"op": "add_variant", "parent": parent["uid"] if parent is not None else None, "variant": nv}
            elif k == "del_variant":
                v, p = r.choice(vs)
                op = {"op": "del_variant", "parent": p["uid"] if p is not None else None, "key": v["key"]}
            else:
                tops = s["variants"]
                v = r.choice(tops)
                op = {"op": "add_arch", "uid": v["uid"], "arch": self.nxt("arch", ARCH_BOUNDARY)}
            apply_ops_spec(s, [op])
            ops.append(op)
        return ops, s


def gen(rng, tier="quick"):
    return Gen(rng, tier).spec()


def walk(spec):
    """every variant of the forest with its parent (pre-order)"""
    out = []

    def rec(vs, parent):
        for v in vs:
            out.append((v, parent))
            rec(v["variants"], v)
    rec(spec["variants"], None)
    return out


# ------------------------------------------------------------------------------------------------- real side
STYLES = {"arches": ["assign", "add", "update", "ior"],          # how the documented set attribute is filled
          "paths": ["update", "item", "assign"],                   # how the documented path dicts are filled
          "order": ["parent-first", "kids-first"],                 # add(v) before or after v's own children are added
          "release": ["attrs"]}
DEFAULT_STYLE = {"arches": "assign", "paths": "update", "order": "parent-first", "release": "attrs"}


def gen_style(rng):
    """one way of using the public API to put a description into the objects (all equivalent by the documentation)"""
    return dict((k, rng.choice(v)) for k, v in sorted(STYLES.items()))


def _build_steps(spec, raw, style):
    """generator: performs the construction step by step (yields between the steps so that two constructions can be
    interleaved in one process); the finished ComposeInfo is the generator's return value"""
    from productmd.composeinfo import ComposeInfo, Variant
    st = dict(DEFAULT_STYLE, **(style or {}))
    ci = ComposeInfo()
    yield
    c = spec["compose"]
    ci.compose.id, ci.compose.type, ci.compose.date, ci.compose.respin = c["id"], c["type"], c["date"], c["respin"]
    ci.compose.label, ci.compose.final = c["label"], c["final"]

    def fill(obj, r, full):
        obj.name, obj.short, obj.version, obj.type = r["name"], r["short"], r["version"], r["type"]
        if full:
            obj.is_layered, obj.internal = r["is_layered"], r["internal"]
    fill(ci.release, spec["release"], True)
    if spec.get("base_product") is not None:
        fill(ci.base_product, spec["base_product"], False)
    yield

    def place(container, parent, s, v):
        if raw or (s["key"] != s["id"] and parent is not None):
            container.variants[s["key"]] = v
            if parent is not None:
                v.parent = parent
        elif s["key"] != s["id"]:
            container.add(v, variant_id=s["key"])
        else:
            container.add(v)

    def mk(vs, parent):
        container = ci.variants if parent is None else parent
        for s in vs:
            v = Variant(ci)
            v.id, v.uid, v.name, v.type = s["id"], s["uid"], s["name"], s["type"]
            if not isinstance(s["arches"], list):
                v.arches = s["arches"]                       # corrupting streams: a value of another type
            elif st["arches"] == "assign":
                v.arches = set(s["arches"])
            elif st["arches"] == "add":
                for a in s["arches"]:
                    v.arches.add(a)
            elif st["arches"] == "update":
                v.arches.update(s["arches"])
            else:
                v.arches |= set(s["arches"])
            yield
            for cat, d in s["paths"].items():
                if not hasattr(v.paths, cat):
                    setattr(v.paths, cat, {})
                if st["paths"] == "update":
                    getattr(v.paths, cat).update(d)
                elif st["paths"] == "item":
                    for a, p in d.items():
                        getattr(v.paths, cat)[a] = p
                else:
                    setattr(v.paths, cat, dict(d))
            if s.get("release") is not None:
                fill(v.release, s["release"], True)
            yield
            if st["order"] == "kids-first" and not raw:
                # the subtree is assembled first; the variant needs its parent pointer for nothing before add()
                for _ in mk(s["variants"], v):
                    yield
                place(container, parent, s, v)
            else:
                place(container, parent, s, v)
                for _ in mk(s["variants"], v):
                    yield
            yield
    for _ in mk(spec["variants"], None):
        yield
    return ci


def _drive(gens):
    """run generators round-robin to completion; -> their return values"""
    out = [None] * len(gens)
    live = list(range(len(gens)))
    while live:
        for i in list(live):
            try:
                next(gens[i])
            except StopIteration as e:
                out[i] = e.value
                live.remove(i)
    return out


def build(spec, raw=False, style=None):
    """assemble the object graph through the public API (attribute assignment / in-place filling of the documented
    containers, add()); `style` picks among equivalent ways of doing so (see STYLES); raw=True bypasses add()
    (direct dict insertion) so that the *writer's* refusals can be observed"""
    return _drive([_build_steps(spec, raw, style)])[0]


def build_interleaved(specs, raws=None, styles=None):
    """several descriptions assembled in ONE process with their construction steps interleaved (hidden shared state
    between objects — class-level or default-argument containers, caches — shows as cross-talk)"""
    n = len(specs)
    raws = raws or [False] * n
    styles = styles or [None] * n
    return _drive([_build_steps(specs[i], raws[i], styles[i]) for i in range(n)])


def same_description(spec, snapshot, force_layered=False):
    """None if the snapshot of an object graph holds exactly the description `spec` (as put in, before any write),
    else the first difference.  Representation only: dicts/sets unordered, an absent category = an empty dict."""
    a, b = canon(strip_parent(spec)), canon(strip_parent(snapshot))
    for side in (a, b):
        for v, _ in walk(side):
            v["paths"] = dict((c, t) for c, t in v["paths"].items() if t and c in CATEGORIES)   # other attributes are no categories
            if force_layered and v["type"] == LP and v["release"] is not None:
                v["release"]["is_layered"] = True
    return None if a == b else (b, a)


def _rel(r, full):
    d = {"name": r.name, "short": r.short, "version": r.version, "type": r.type}
    if full:
        d["is_layered"] = r.is_layered
        d["internal"] = r.internal
    return d


def snap(ci):
    """every public attribute; an untouched base product / variant release is reported as None"""
    def rel_or_none(d, blank):
        return None if d == blank else d

    def arch_list(x):
        try:
            return sorted(x)
        except TypeError:
            return x if isinstance(x, (type(None), bool, int, float, str, list, dict)) else repr(x)   # corrupting streams

    def sv(key, v):
        paths = {}
        for cat in v.paths._fields:
            paths[cat] = dict(getattr(v.paths, cat))
        return {"key": key, "id": v.id, "uid": v.uid, "name": v.name, "type": v.type, "arches": arch_list(v.arches),
                "parent": (v.parent.uid if v.parent is not None else None), "paths": paths,
                "release": rel_or_none(_rel(v.release, True), {"name": None, "short": None, "version": None, "type": None,
                                                                "is_layered": True, "internal": False}),
                "variants": [sv(k, x) for k, x in v.variants.items()]}
    c = ci.compose
    return {"compose": {"id": c.id, "type": c.type, "date": c.date, "respin": c.respin, "label": c.label, "final": c.final},
            "release": _rel(ci.release, True),
            "base_product": rel_or_none(_rel(ci.base_product, False), {"name": None, "short": None, "version": None, "type": None}),
            "variants": [sv(k, v) for k, v in ci.variants.variants.items()]}


def _find_spec(spec, uid):
    for v, _ in walk(spec):
        if v["uid"] == uid:
            return v
    raise KeyError(uid)


def apply_ops_spec(spec, ops):
    """the effect of a list of public mutations (see Gen.history) on a description, in place"""
    for op in ops:
        k = op["op"]
        if k == "set_label":
            spec["compose"]["label"], spec["compose"]["final"] = op["label"], op["final"]
        elif k == "set_path":
            _find_spec(spec, op["uid"])["paths"].setdefault(op["cat"], {})[op["arch"]] = op["path"]
        elif k == "del_path":
            del _find_spec(spec, op["uid"])["paths"][op["cat"]][op["arch"]]
        elif k == "add_variant":
            (spec["variants"] if op["parent"] is None else _find_spec(spec, op["parent"])["variants"]).append(copy.deepcopy(op["variant"]))
        elif k == "del_variant":
            lst = spec["variants"] if op["parent"] is None else _find_spec(spec, op["parent"])["variants"]
            lst[:] = [v for v in lst if v["key"] != op["key"]]
        elif k == "add_arch":
            v = _find_spec(spec, op["uid"])
            if op["arch"] not in v["arches"]:
                v["arches"].append(op["arch"])
    return spec


def find_variant(ci, uid):
    """the variant object with this UID (depth-first through the public dicts)"""
    def rec(c):
        for v in c.variants.values():
            if v.uid == uid:
                return v
            r = rec(v)
            if r is not None:
                return r
        return None
    return rec(ci.variants)


def apply_ops(ci, ops):
    """the same mutations on a ComposeInfo object, through the public API only"""
    from productmd.composeinfo import Variant
    for op in ops:
        k = op["op"]
        if k == "set_label":
            ci.compose.label, ci.compose.final = op["label"], op["final"]
        elif k == "set_path":
            getattr(find_variant(ci, op["uid"]).paths, op["cat"])[op["arch"]] = op["path"]
        elif k == "del_path":
            del getattr(find_variant(ci, op["uid"]).paths, op["cat"])[op["arch"]]
        elif k == "add_variant":
            s = op["variant"]
            container = ci.variants if op["parent"] is None else find_variant(ci, op["parent"])
            v = Variant(ci)
            v.id, v.uid, v.name, v.type = s["id"], s["uid"], s["name"], s["type"]
            v.arches.update(s["arches"])
            for cat, d in s["paths"].items():
                if not hasattr(v.paths, cat):
                    setattr(v.paths, cat, {})
                getattr(v.paths, cat).update(d)
            if s.get("release") is not None:
                r = s["release"]
                v.release.name, v.release.short, v.release.version, v.release.type = r["name"], r["short"], r["version"], r["type"]
                v.release.is_layered, v.release.internal = r["is_layered"], r["internal"]
            container.add(v)
        elif k == "del_variant":
            container = ci.variants if op["parent"] is None else find_variant(ci, op["parent"])
            del container[op["key"]]
        elif k == "add_arch":
            find_variant(ci, op["uid"]).arches.add(op["arch"])
    return ci


def probe(ci):
    """every public read-only entry point of the composeinfo objects; none of them may change the description"""
    res = []

    def call(f):
        try:
            res.append(repr(f())[:60])
        except Exception as e:  # noqa
            res.append(type(e).__name__)
    call(lambda: str(ci)); call(lambda: ci.release_id); call(lambda: ci.get_release_id(major_version=True)); call(ci.create_compose_id)
    call(lambda: ci.compose.is_ga); call(lambda: ci.compose.full_label); call(lambda: ci.compose.label_major_version)
    call(lambda: ci.compose.type_suffix); call(lambda: repr(ci.compose)); call(lambda: ci.release.major_version); call(lambda: ci.release.minor_version)
    call(lambda: ci.release.type_suffix); call(lambda: ci.base_product.major_version); call(lambda: str(ci.release)); call(lambda: repr(ci.release))
    call(lambda: ci.get_variants()); call(lambda: ci.get_variants(recursive=True)); call(lambda: ci.get_variants(arch="x86_64", types=["variant", "optional"], recursive=True))
    call(lambda: len(ci.variants)); call(lambda: list(ci.variants)); call(lambda: ci.variants._get_all_parents())

    def rec(c):
        for key in list(c.variants):
            v = c.variants[key]
            call(lambda: ci[v.uid]); call(lambda: c[key]); call(lambda: v.compose_id); call(lambda: str(v)); call(lambda: repr(v)); call(lambda: repr(v.paths))
            call(lambda: v.get_variants(types=["self"], recursive=True)); call(lambda: len(v)); call(lambda: list(v)); call(lambda: v.validate())
            rec(v)
    rec(ci.variants)
    call(ci.validate); call(ci.compose.validate); call(ci.release.validate); call(ci.header.validate); call(lambda: ci.header.version_tuple)
    return res


# ------------------------------------------------------------------------------------------------- oracle side
def norm(spec):
    """the documented normal form of a description: what must come back from a write/read cycle"""
    s = copy.deepcopy(spec)
    c = s["compose"]
    if not c["label"]:
        c["label"] = None
        c["final"] = False                       # 'final' is only stored next to a label
    if isinstance(s["release"]["type"], str):
        s["release"]["type"] = s["release"]["type"].lower()  # case-folded (no-op on every writable type)
    if not s["release"]["is_layered"]:
        s["base_product"] = None                  # base product only when layered

    def nv(v, parent):
        arches = sorted(set(v["arches"]))
        paths = {}
        for cat in CATEGORIES:
            src = v["paths"].get(cat) or {}
            paths[cat] = dict((a, src[a]) for a in arches if src.get(a))       # empty / foreign-arch paths are not stored
        rel = None
        if v["type"] == LP and v["release"] is not None:
            rel = dict(v["release"], is_layered=True)
            if isinstance(rel["type"], str):
                rel["type"] = rel["type"].lower()
        out = {"key": v["id"], "id": v["id"], "uid": v["uid"], "name": v["name"], "type": v["type"], "arches": arches,
               "parent": parent, "paths": paths, "release": rel}
        out["variants"] = sorted((nv(k, v["uid"]) for k in v["variants"]), key=lambda x: x["id"])
        return out
    s["variants"] = sorted((nv(v, None) for v in s["variants"]), key=lambda x: x["uid"])
    return s


def canon(spec):
    """order-insensitive form of a spec or snapshot"""
    s = copy.deepcopy(spec)

    def cv(v):
        v["arches"] = sorted(set(v["arches"]))
        v["variants"] = sorted((cv(k) for k in v["variants"]), key=lambda x: (x["key"], x["uid"]))
        return v
    s["variants"] = sorted((cv(v) for v in s["variants"]), key=lambda x: (x["key"], x["uid"]))
    return s


def strip_parent(spec):
    """spec without the derived "parent" fields (wire format for the driver)"""
    s = copy.deepcopy(spec)
    for v, _ in walk(s):
        v.pop("parent", None)
    return s
