"""Real-side adapter for productmd.rpms.Rpms: generator of add histories (valid and invalid values of every
parameter), builder, snapshot, and the per-step property oracle of C12 (frame + content + refusal)."""
import copy
from formats import manifest_common as mc

KIND = "rpms"
SEGS = ["foo", "bar", "lib", "2", "3d", "python3", "x", "gtk2", "0", "devel", "Perl", "a_b", "c++"]
# audit A1/A2/A4/A5: blanks, the format's delimiters (also doubled), case variants, non-ASCII, astral, long, type look-alikes
SEGS_EXOTIC = ["perl", "PERL", "foo bar", " lead", "ta\tb", "nb\u00a0sp", "dot.ted", "co:lon", "at@", "pct%s", 'quo"te', "apos'", "back\\slash",
               "brack[et]", "", "\u00fcn\u00ef", "\u540d\u524d", "\U0001f600", "<LONG>", "None", "null", "False", "1.0", "a,b;c=d#e"]
# very long N-E:V-R.A components cost the backtracking regex MODEL seconds per call (degree-4 pattern): 300 characters in the
# thorough / search tiers, 48 in the quick tier (300-character values of the other parameters are generated in every tier)
LONG_N = {"n": 48}
VERSIONS = ["1.0", "2", "1.2.3", "0.9_rc1", "1~beta2", "20150101", "3.1.0", "12.2.5",
            "1:2", "1 0", "1%", "\u0663.\uff17", "1.0@x", "<LONG>", "None", "0", "1..2", "1,2;3=4"]
RELEASES = ["1", "1.el7", "3.fc23", "0.1.rc9.el7cp", "25.el7cp", "2.module+el8", "1.el7 x", "1,2", "1;2", "0", "1..el7", "r:1"]
EPOCHS = [("0", 0), ("0", 0), ("1", 1), ("2", 2), ("10", 10), ("007", 7), ("00", 0), ("4294967296", 4294967296),
          ("١٢", 12), ("\uff17", 7), ("9223372036854775807", 2 ** 63 - 1), ("2147483648", 2 ** 31), ("10000000", 10 ** 7)]
PREFIXES = ["", "", "Packages/f/", "/abs/dir/", "a/b-c/", "x-1:2-3.y/",
            "./", "a/../b/", "dir//", "a b/", "\u00fcn\u00ef/", "Packages/f/Packages/f/", "//"]
SUFFIXES = ["", ".rpm"]
SIGKEYS = [None, "fd431d51", "FD431D51", "AbCd1234", "", "34EC9CBA", "f5282ee4", "0", "None", "Fd431D51", "AB" * 150, " FD 43 ", "fd:43-1d.51"]
PATHS = ["Server/x86_64/os/Packages/f/%s.rpm", "Packages/%s.rpm", "%s", "a/b/c/%s.rpm", "tree/../%s.rpm",
         # audit A1/A3/A5
         "./%s.rpm", "a//%s.rpm", "a/../%s", "%s/", "my docs/%s.rpm", "\u00fcn\u00ef/\U0001f600/%s", "x" * 300 + "/%s", "a\tb/%s", '"q"/%s',
         "back\\slash/%s", "a/a/a/%s", "%s//"]
PATHS_FIXED = ["None", " ", "0", ".", "..", "null"]
UNPARSABLE = ["foo:bar", ":", "foo-1:bar", "a:b-c", "1:foo-1.0-1", "foo-1:1.0", "foo:", "-:-", "foo-0:1.0-1\n.x86_64"]
CATEGORIES = ["binary", "debug", "source"]


def mapping(obj):
    return obj.rpms


def new():
    return mc.lib().rpms.Rpms()


def add(obj, op):
    obj.add(op["variant"], op["arch"], op["nevra"], op["path"], op["sigkey"], op["category"], op.get("srpm"))


def canonical(name, epoch, version, release, arch):
    return "%s-%d:%s-%s.%s" % (name, epoch, version, release, arch)


def text(rng, name, epoch_text, version, release, arch, with_epoch=True):
    return "%s%s-%s%s-%s.%s%s" % (rng.choice(PREFIXES), name, (epoch_text + ":") if with_epoch else "", version, release, arch,
                                  rng.choice(SUFFIXES))


def gen_source(rng):
    pool = SEGS if rng.random() < 0.8 else SEGS + SEGS_EXOTIC
    name = "-".join(rng.choice(pool) for _ in range(rng.choice([1, 1, 2, 2, 3, 4])))
    if name == "":
        name = "-"
    name = name.replace("<LONG>", "x" * LONG_N["n"])
    et, ev = rng.choice(EPOCHS)
    return {"name": name, "et": et, "ev": ev, "version": rng.choice(VERSIONS).replace("<LONG>", "v" * LONG_N["n"]), "release": rng.choice(RELEASES),
            "srcarch": rng.choice(["src", "src", "src", "nosrc"])}


def valid_op(rng, src, variant, arch, i):
    """one valid call for a package built from source package `src`"""
    category = CATEGORIES[i % 3]
    srpm_key = canonical(src["name"], src["ev"], src["version"], src["release"], src["srcarch"])
    if category == "source":
        name, parch, srpm = src["name"], src["srcarch"], None
    else:
        sub = rng.choice(["", "-libs", "-devel", "-2", "-doc"]) + ("-debuginfo" if category == "debug" else "")
        name = src["name"] + sub
        parch = rng.choice([arch, "noarch", arch, rng.choice(mc.arches())])
        srpm = text(rng, src["name"], rng.choice([src["et"], str(src["ev"])]), src["version"], src["release"], src["srcarch"])
    nevra = text(rng, name, src["et"], src["version"], src["release"], parch)
    key = canonical(name, src["ev"], src["version"], src["release"], parch)
    sigkey = rng.choice(SIGKEYS)
    path = rng.choice(PATHS) % ("%s-%s-%s.%s" % (name, src["version"], src["release"], parch))
    if rng.random() < 0.03:
        path = rng.choice(PATHS_FIXED)
    if path.startswith("/"):                                      # an exotic name may begin with a slash-free blank only; keep the call valid
        path = "p" + path
    return {"variant": variant, "arch": arch, "nevra": nevra, "path": path, "sigkey": sigkey, "category": category, "srpm": srpm,
            "expect": {"srpm_key": srpm_key if category != "source" else key, "key": key}, "why": "valid"}


INVALID_KINDS = ["suffix_near_miss", "source_arch_near_miss", "missing_epoch", "missing_epoch_colon_elsewhere", "unparsable", "abs_path", "empty_path", "bad_arch", "src_arch", "bad_category",
                 "category_disagrees", "srpm_missing_epoch", "srpm_unparsable", "source_with_srpm", "binary_without_srpm", "empty_srpm"]


def invalid_op(rng, base, kind):
    """`base` is a valid op; corrupt exactly one thing"""
    op = dict(base)
    op["why"] = kind
    op["expect"] = "refuse"
    if kind == "missing_epoch":
        n = op["nevra"]
        i = n.index(":", n.rfind("/") + 1) if ":" in n[n.rfind("/") + 1:] else -1
        if i < 0:
            op["nevra"] = "foo-1.0-1.x86_64"
        else:
            j = n.rfind("-", 0, i)
            op["nevra"] = n[:j + 1] + n[i + 1:]
        if ":" in op["nevra"]:
            op["nevra"] = "foo-1.0-1.x86_64"
    elif kind == "missing_epoch_colon_elsewhere":
        # no epoch in the N-V-R.A itself; a ':' in the directory prefix or in the version
        arch = "src" if op["category"] == "source" else "x86_64"
        op["nevra"] = rng.choice(["a:b/foo-1.0-1.%s", "foo-a:b-1.%s", "x-1:2-3.y/foo-1.0-1.%s.rpm"]) % arch
    elif kind == "unparsable":
        op["nevra"] = rng.choice(UNPARSABLE)
    elif kind == "abs_path":
        op["path"] = "/" + op["path"]
    elif kind == "empty_path":
        op["path"] = ""
    elif kind == "bad_arch":
        op["arch"] = rng.choice(mc.BAD_ARCHES)
    elif kind == "src_arch":
        op["arch"] = rng.choice(["src", "nosrc"])
    elif kind == "bad_category":
        op["category"] = rng.choice(mc.BAD_CATEGORIES)
    elif kind == "suffix_near_miss":
        # audit C2: near misses of the literal ".rpm" (not stripped: the arch then carries it) - no expectation, correspondence only
        base_n = op["nevra"][:-4] if op["nevra"].endswith(".rpm") else op["nevra"]
        op["nevra"] = base_n + rng.choice([".rpmx", ".RPM", ".rp", "rpm", ".rpm.rpm", ".rpm "])
        op["expect"] = None
    elif kind == "source_arch_near_miss":
        # audit C2/A7: extensions / prefixes of the literals "src", "nosrc" as the RPM's own arch under category source
        op["category"] = "source"
        op["srpm"] = None
        op["nevra"] = "foo-1:1.0-1.%s" % rng.choice(["srcx", "sr", "nosrcs", "nosr", "SRC", "src "])
    elif kind == "category_disagrees":
        if op["category"] == "source":
            op["category"] = rng.choice(["binary", "debug"])
            op["srpm"] = op["nevra"]
        else:
            op["category"] = "source"
            op["srpm"] = None
    elif kind == "srpm_missing_epoch":
        if op["srpm"] is None:
            return invalid_op(rng, base, "missing_epoch")
        op["srpm"] = "foo-1.0-1.src.rpm"
    elif kind == "srpm_unparsable":
        if op["srpm"] is None:
            return invalid_op(rng, base, "unparsable")
        op["srpm"] = rng.choice(UNPARSABLE)
    elif kind == "source_with_srpm":
        if op["category"] != "source":
            return invalid_op(rng, base, "abs_path")
        op["srpm"] = op["nevra"]
        op["expect"] = None            # refused by the code, not named by the statement: generic oracle only
    elif kind == "empty_srpm":
        if op["category"] == "source":
            return invalid_op(rng, base, "bad_category")
        op["srpm"] = ""                # `if srpm_nevra:` is false: filed under its own NEVRA (not named by the statement)
        op["expect"] = None
    elif kind == "binary_without_srpm":
        if op["category"] == "source":
            return invalid_op(rng, base, "bad_arch")
        op["srpm"] = None
        op["expect"] = None
    return op


def mutated_op(rng, base):
    op = dict(base)
    f = rng.choice(["nevra", "nevra", "srpm", "path", "arch", "category", "variant", "sigkey"])
    if op.get(f) is None:
        f = "nevra"
    op[f] = mc.mutate_str(rng, op[f])
    op["expect"] = None
    op["why"] = "mutated:" + f
    return op


KF_BUDGET = {"missing_epoch_colon_elsewhere": 18}


def reset_budget(tier="quick"):
    KF_BUDGET.update({"missing_epoch_colon_elsewhere": 18})
    LONG_N["n"] = 48 if tier == "quick" else 300


def gen_ops(rng, tier, n=None, valid_only=False):
    n = n or rng.choice([3, 5, 8, 12] + ([25, 40] if tier != "quick" else [16]))
    my_arches = mc.next_arches(rng.choice([1, 2, 3]))
    variants = mc.pick_variants(rng, rng.choice([1, 2, 3]))
    sources = [gen_source(rng) for _ in range(rng.choice([1, 2, 3]))]
    ops, valid = [], []
    for i in range(n):
        r = rng.random()
        if valid and r < 0.12:
            op = dict(rng.choice(valid))                                   # exact repeat
            op["why"] = "repeat"
        elif valid and r < 0.24:
            op = dict(rng.choice(valid))                                   # same RPM elsewhere
            op["variant"], op["arch"] = rng.choice(variants), rng.choice(my_arches)
            op["why"] = "elsewhere"
        elif valid and r < 0.30:
            op = dict(rng.choice(valid))                                   # same RPM, new path / key: overwritten
            op["path"] = "moved/" + op["path"]
            op["sigkey"] = rng.choice(SIGKEYS)
            op["why"] = "overwrite"
        else:
            op = valid_op(rng, rng.choice(sources), rng.choice(variants), rng.choice(my_arches), rng.randrange(3) if r < 0.9 else i)
        if not valid_only:
            r2 = rng.random()
            if r2 < 0.22:
                kind = INVALID_KINDS[rng.randrange(len(INVALID_KINDS))]
                if kind in KF_BUDGET:
                    # inputs that meet the known finding F31: a bounded number per run (the pipeline stops consuming
                    # cases after 50 recorded failures, known or not)
                    if rng.random() < 0.9 or KF_BUDGET[kind] <= 0:
                        kind = "missing_epoch"
                    else:
                        KF_BUDGET[kind] -= 1
                op = invalid_op(rng, op, kind)
            elif r2 < 0.32:
                op = mutated_op(rng, op)
        if op.get("why") in ("valid", "repeat", "elsewhere", "overwrite"):
            valid.append(op)
        ops.append(op)
        if op.get("expect") == "refuse" and not valid_only and rng.random() < 0.4 and valid:
            rep = dict(rng.choice(valid))                                  # audit B2: failed call -> repaired call -> success
            rep["why"] = "repeat"
            ops.append(rep)
    return ops


def gen(rng, tier, valid_only=False):
    return {"kind": KIND, "compose": mc.gen_compose(rng), "ops": gen_ops(rng, tier, valid_only=valid_only)}


def build(spec):
    obj = new()
    mc.apply_compose(obj, spec["compose"])
    for op in spec["ops"]:
        try:
            add(obj, op)
        except (ValueError, TypeError):
            pass
    return obj


def snap(obj):
    return mc.snap_manifest(obj, obj.rpms)


def record_of(op):
    return {"sigkey": op["sigkey"].lower() if op["sigkey"] is not None else None, "path": op["path"], "category": op["category"]}


def oracle_step(before, after, op, out):
    """the property on one real call; states are `enc`oded mappings"""
    if "err" in out:
        if out["err"] not in ("ValueError", "TypeError"):
            return {"kind": "wrong-exception", "observed": out["err"], "required": "ValueError or TypeError (%s)" % op.get("why")}
        if after != before:
            return {"kind": "refusal-changed-state", "observed": {"before": before, "after": after}, "required": "a refused call changes nothing"}
        if isinstance(op.get("expect"), dict):
            return {"kind": "valid-call-refused", "observed": out, "required": "call succeeds (%s)" % op.get("why")}
        return None
    if op.get("expect") == "refuse":
        return {"kind": "accepted-invalid", "observed": "Rpms.add accepted the call", "required": "ValueError/TypeError, nothing changed (%s)" % op["why"],
                "why": op["why"]}
    rec = record_of(op)
    slot = after.get(op["variant"], {}).get(op["arch"], {}) if isinstance(after, dict) else {}
    found = []
    for K in (slot if isinstance(slot, dict) else {}):
        sub = slot[K]
        for N in (sub if isinstance(sub, dict) else {}):
            if sub[N] != rec:
                continue
            exp = copy.deepcopy(before)
            exp.setdefault(op["variant"], {}).setdefault(op["arch"], {}).setdefault(K, {})[N] = rec
            if exp == after:
                found.append([K, N])
    if not found:
        return {"kind": "frame-or-content", "observed": {"before": before, "after": after},
                "required": "exactly [variant][arch][srpm][nevra] = %r is set, nothing else changes" % (rec,)}
    e = op.get("expect")
    if isinstance(e, dict) and [e["srpm_key"], e["key"]] not in found:
        return {"kind": "wrong-key", "observed": found, "required": [e["srpm_key"], e["key"]]}
    return None
