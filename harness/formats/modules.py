"""Real-side adapter for productmd.modules.Modules (see formats/rpms.py for the conventions)."""
import copy
from formats import manifest_common as mc

KIND = "modules"
NAMES = ["httpd", "nodejs", "postgresql", "perl-DBI", "my_mod", "389-ds", "a.b",
         # audit A1/A2/A4/A5
         "HTTPD", "Httpd", "mod ule", " m", "m\tn", "m\u00a0n", "\u00fcn\u00ef", "\u540d\u524d", "\U0001f600", "None", "0", "a@b%c,d;e=f#g[h]",
         'q"uo\'te\\', "x" * 300, "a--b"]
STREAMS = ["2.4", "10", "rolling", "el8", "1.0-beta", "0", "1.0", "None", "s t", "2.4 ", "\u0663", "S", "s"]
VERS = ["20180816142114", "1", "820190206142837", "0", "9223372036854775807", "1.0", "v 1"]
CTXS = ["6c81f848", "abc", "9edba152", "00000000", "ctx.1-2", "0", "C\u00d6"]
PREFIXES = ["", "", "modules/x86_64/", "/abs/", "a:b/", "./", "a//", "dir/../", "\u00fcn\u00ef/", "m/m/"]
KOJI_TAGS = ["module-x", "0", "None", "tag with blank", "\U0001f600", "t" * 300, 'q"t', "a/b", " "]
MD_EXOTIC = ["./m.yaml", "a//m.yaml", "a/../m.yaml", "dir/", "my docs/m.yaml", "\u00fcn\u00ef/m.yaml", "x" * 300, "None", " ", "0", "a/a/a"]
RPMS_EXOTIC = ["", " ", "None", "\U0001f600-0:1-1.x", 'q"r', "r" * 300, "foo-0:1.0-1.x86_64"]
BAD_UIDS = ["httpd", "a::b", ":s", "a:", "a:b:c:d:e", "", "a:b:", "a:b::d", None, 5, ["a:b"]]
MD_PATHS = ["Server/x86_64/os/repodata/%s-modules.yaml.gz", "repodata/%s.yaml", "%s"]
CATEGORIES = ["binary", "debug", "source"]
RPMS = ["foo-0:1.0-1.x86_64", "bar-libs-2:3.1-4.el8.noarch", "baz-0:1-1.src", "foo-debuginfo-0:1.0-1.x86_64"]


def mapping(obj):
    return obj.modules


def new():
    return mc.lib().modules.Modules()


def seq_arg(j):
    if "list" in j:
        return list(j["list"])
    if "tuple" in j:
        return tuple(j["tuple"])
    return j.get("other")


def add(obj, op):
    arg = seq_arg(op["rpms"])
    obj.add(op["variant"], op["arch"], op["uid"], op["koji_tag"], op["modulemd_path"], op["category"], arg)
    if isinstance(arg, list):
        arg.append("__caller_mutated_its_list_after_the_call__")      # audit B1: the stored list must be a copy


def gen_module(rng):
    n = rng.choice([2, 3, 4, 4])
    parts = [rng.choice(NAMES), rng.choice(STREAMS)]
    if n >= 3:
        parts.append(rng.choice(VERS))
    if n >= 4:
        parts.append(rng.choice(CTXS))
    return parts


def valid_op(rng, parts, variant, arch, i):
    uid = ":".join(parts)
    category = CATEGORIES[i % 3]
    k = rng.choice([0, 1, 2, 3, 3, 10])
    items = [rng.choice(RPMS if rng.random() < 0.85 else RPMS_EXOTIC) for _ in range(k)]
    # audit A9: koji tag and modulemd path decoupled from uid / category
    koji = "module-%s" % "-".join(parts) if rng.random() < 0.7 else rng.choice(KOJI_TAGS)
    mdp = rng.choice(MD_PATHS) % category if rng.random() < 0.7 else rng.choice(MD_EXOTIC)
    return {"variant": variant, "arch": arch, "uid": rng.choice(PREFIXES) + uid,
            "koji_tag": koji, "modulemd_path": mdp, "category": category,
            "rpms": {"tuple": items} if rng.random() < 0.3 else {"list": items},
            "expect": {"uid": uid, "parts": (parts + ["", ""])[:4]}, "why": "valid"}


INVALID_KINDS = ["bad_uid", "abs_path", "empty_path", "bad_arch", "bad_category", "empty_variant", "empty_koji_tag", "bad_rpms"]


def invalid_op(rng, base, kind):
    op = dict(base)
    op["why"] = kind
    op["expect"] = "refuse"
    if kind == "bad_uid":
        op["uid"] = rng.choice(BAD_UIDS)
    elif kind == "abs_path":
        op["modulemd_path"] = "/" + op["modulemd_path"]
    elif kind == "empty_path":
        op["modulemd_path"] = ""
    elif kind == "bad_arch":
        op["arch"] = rng.choice(mc.BAD_ARCHES)
    elif kind == "bad_category":
        op["category"] = rng.choice(mc.BAD_CATEGORIES)
    elif kind == "empty_variant":
        op["variant"] = ""
        op["expect"] = None
    elif kind == "empty_koji_tag":
        op["koji_tag"] = ""
        op["expect"] = None
    elif kind == "bad_rpms":
        op["rpms"] = {"other": rng.choice(["foo-0:1.0-1.x86_64", None, 3])}
        op["expect"] = None
    return op


def mutated_op(rng, base):
    op = dict(base)
    f = rng.choice(["uid", "uid", "uid", "modulemd_path", "arch", "category", "variant", "koji_tag"])
    op[f] = mc.mutate_str(rng, op[f], alphabet=":-./ \nA1z")
    op["expect"] = None
    op["why"] = "mutated:" + f
    return op


def gen_ops(rng, tier, n=None, valid_only=False):
    n = n or rng.choice([2, 4, 6, 10] + ([20, 40] if tier != "quick" else [14]))
    my_arches = mc.next_arches(rng.choice([1, 2, 3]), valid=False)
    variants = mc.pick_variants(rng, rng.choice([1, 2, 3]))
    mods = [gen_module(rng) for _ in range(rng.choice([1, 2, 3]))]
    ops, valid = [], []
    for i in range(n):
        r = rng.random()
        if valid and r < 0.15:
            op = dict(rng.choice(valid)); op["why"] = "repeat"
        elif valid and r < 0.3:
            op = dict(rng.choice(valid))
            op["variant"], op["arch"] = rng.choice(variants), rng.choice(my_arches)
            op["why"] = "elsewhere"
        else:
            op = valid_op(rng, rng.choice(mods), rng.choice(variants), rng.choice(my_arches), rng.randrange(3))
        if not valid_only:
            r2 = rng.random()
            if r2 < 0.22:
                op = invalid_op(rng, op, INVALID_KINDS[rng.randrange(len(INVALID_KINDS))])
            elif r2 < 0.32:
                op = mutated_op(rng, op)
        if op.get("why") in ("valid", "repeat", "elsewhere"):
            valid.append(op)
        ops.append(op)
        if op.get("expect") == "refuse" and not valid_only and rng.random() < 0.4 and valid:
            rep = dict(rng.choice(valid)); rep["why"] = "repeat"          # audit B2: failed -> repaired -> success
            ops.append(rep)
    return ops


def gen(rng, tier, valid_only=False):
    return {"kind": KIND, "compose": mc.gen_compose(rng), "ops": gen_ops(rng, tier, valid_only=valid_only)}


def build(spec):
    obj = new()
    mc.apply_compose(obj, spec["compose"])
    for op in spec["ops"]:
        try:
            add(obj, op)
        except (ValueError, TypeError):
            pass
    return obj


def snap(obj):
    return mc.snap_manifest(obj, obj.modules)


def oracle_step(before, after, op, out):
    if "err" in out:
        if out["err"] not in ("ValueError", "TypeError"):
            return {"kind": "wrong-exception", "observed": out["err"], "required": "ValueError or TypeError (%s)" % op.get("why")}
        if after != before:
            return {"kind": "refusal-changed-state", "observed": {"before": before, "after": after}, "required": "a refused call changes nothing"}
        if isinstance(op.get("expect"), dict):
            return {"kind": "valid-call-refused", "observed": out, "required": "call succeeds (%s)" % op.get("why")}
        return None
    if op.get("expect") == "refuse":
        return {"kind": "accepted-invalid", "observed": "Modules.add accepted the call", "required": "ValueError/TypeError, nothing changed (%s)" % op["why"],
                "why": op["why"]}
    items = op["rpms"].get("list", op["rpms"].get("tuple", []))
    slot = after.get(op["variant"], {}).get(op["arch"], {}) if isinstance(after, dict) else {}
    found = []
    for U in (slot if isinstance(slot, dict) else {}):
        parts = (U.split(":") + ["", ""])[:4]
        exp = copy.deepcopy(before)
        e = exp.setdefault(op["variant"], {}).setdefault(op["arch"], {}).setdefault(U, {})
        e["metadata"] = {"uid": U, "name": parts[0], "stream": parts[1], "version": parts[2], "context": parts[3], "koji_tag": op["koji_tag"]}
        e.setdefault("modulemd_path", {})[op["category"]] = op["modulemd_path"]
        if not isinstance(e.setdefault("rpms", []), list):
            continue
        e["rpms"] = e["rpms"] + list(items)
        if exp == after:
            found.append(U)
    if not found:
        return {"kind": "frame-or-content", "observed": {"before": before, "after": after},
                "required": "only [variant][arch][uid] changes: metadata set, modulemd_path[category] set, rpms list extended"}
    e = op.get("expect")
    if isinstance(e, dict) and e["uid"] not in found:
        return {"kind": "wrong-key", "observed": found, "required": e["uid"]}
    return None
