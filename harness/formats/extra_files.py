"""Real-side adapter for productmd.extra_files.ExtraFiles (see formats/rpms.py for the conventions)."""
import copy, io
from formats import manifest_common as mc

KIND = "extra_files"
FILES = ["GPL", "EULA", "README.md", "RPM-GPG-KEY-redhat-release", "media.repo",
         "READ ME", "\u00fcn\u00ef\U0001f600", "None", ".hidden", "x" * 300, "a\tb", 'q"f', "0", "gpl", "Gpl"]
DIRS = ["", "Server/x86_64/os/", "Server/x86_64/os2/", "a/b/", "a/bc/", "a/b/c/", "docs/",
        # the base re-occurs inside / at the end of the path; repeated components
        "Server/x86_64/os/docs/Server/x86_64/os/", "os/repos/os/", "a/a/a/", "a/b/a/b/", "a/a/b/a/a/", "x/os/x/os/",
        # audit A1/A3
        "./", "a//b/", "a/../b/", "my docs/", "\u00fcn\u00ef/", "A/B/", "a/b//"]
CK_TYPES = ["md5", "sha1", "sha256", "SHA256", "Sha512", "", "sha 256", "\uff33\uff28\uff21", "None", "MD5"]
CK_VALUES = ["", " ", "None", "\U0001f600", 'q"v', "f" * 300, "ABCDEF", "abcdef"]
BAD_CHECKSUMS = [None, "sha256:abc", [["sha256", "abc"]], 5]
SIZES = [0, 1, 18092, 2 ** 32 + 5, 2 ** 60 + 1, -1, 2 ** 31, 2 ** 32 + 7, 2 ** 53 + 1, 2 ** 63 - 1, 10 ** 7, 10 ** 8, True, False, 1.5, -0.5, None]


def mapping(obj):
    return obj.extra_files


def new():
    return mc.lib().extra_files.ExtraFiles()


def add(obj, op):
    obj.add(op["variant"], op["arch"], op["path"], op["size"], copy.deepcopy(op["checksums"]))


def valid_op(rng, variant, arch):
    cks = dict((t, "%032x" % rng.getrandbits(128) if rng.random() < 0.9 else rng.choice(CK_VALUES))
               for t in rng.sample(CK_TYPES, rng.choice([0, 1, 1, 2, 3, len(CK_TYPES)])))          # audit A10: empty, one, many
    return {"variant": variant, "arch": arch, "path": rng.choice(DIRS) + rng.choice(FILES), "size": rng.choice(SIZES),
            "checksums": cks, "expect": {}, "why": "valid"}


INVALID_KINDS = ["abs_path", "empty_path", "bad_arch", "empty_variant", "bad_checksums"]


def invalid_op(rng, base, kind):
    op = dict(base)
    op["why"] = kind
    op["expect"] = "refuse"
    if kind == "abs_path":
        op["path"] = "/" + op["path"]
    elif kind == "empty_path":
        op["path"] = ""
    elif kind == "bad_arch":
        op["arch"] = rng.choice(mc.BAD_ARCHES)
    elif kind == "empty_variant":
        op["variant"] = ""
        op["expect"] = None
    elif kind == "bad_checksums":
        op["checksums"] = rng.choice(BAD_CHECKSUMS)
        op["expect"] = None
    return op


def mutated_op(rng, base):
    op = dict(base)
    f = rng.choice(["path", "path", "arch", "variant"])
    op[f] = mc.mutate_str(rng, op[f], alphabet="/-. \nA1z")
    op["expect"] = None
    op["why"] = "mutated:" + f
    return op


def gen_ops(rng, tier, n=None, valid_only=False):
    n = n or rng.choice([1, 3, 5, 8] + ([20, 40] if tier != "quick" else [12]))
    my_arches = mc.next_arches(rng.choice([1, 2, 3]), valid=False)
    variants = mc.pick_variants(rng, rng.choice([1, 2, 3]))
    ops, valid = [], []
    for i in range(n):
        r = rng.random()
        if valid and r < 0.15:
            op = dict(rng.choice(valid)); op["why"] = "repeat"
        else:
            op = valid_op(rng, rng.choice(variants), rng.choice(my_arches))
        if not valid_only:
            r2 = rng.random()
            if r2 < 0.2:
                op = invalid_op(rng, op, INVALID_KINDS[rng.randrange(len(INVALID_KINDS))])
            elif r2 < 0.3:
                op = mutated_op(rng, op)
        if op.get("why") in ("valid", "repeat"):
            valid.append(op)
        ops.append(op)
        if op.get("expect") == "refuse" and not valid_only and rng.random() < 0.4 and valid:
            rep = dict(rng.choice(valid)); rep["why"] = "repeat"          # audit B2: failed -> repaired -> success
            ops.append(rep)
    return ops


def gen(rng, tier, valid_only=False):
    return {"kind": KIND, "compose": mc.gen_compose(rng), "ops": gen_ops(rng, tier, valid_only=valid_only)}


def build(spec):
    obj = new()
    mc.apply_compose(obj, spec["compose"])
    for op in spec["ops"]:
        try:
            add(obj, op)
        except (ValueError, TypeError):
            pass
    return obj


def snap(obj):
    return mc.snap_manifest(obj, obj.extra_files)


def dump_for_tree(obj, variant, arch, basepath):
    out = io.StringIO()
    obj.dump_for_tree(out, variant, arch, basepath)
    return out.getvalue()


def oracle_step(before, after, op, out):
    if "err" in out:
        if out["err"] not in ("ValueError", "TypeError"):
            return {"kind": "wrong-exception", "observed": out["err"], "required": "ValueError or TypeError (%s)" % op.get("why")}
        if after != before:
            return {"kind": "refusal-changed-state", "observed": {"before": before, "after": after}, "required": "a refused call changes nothing"}
        if isinstance(op.get("expect"), dict):
            return {"kind": "valid-call-refused", "observed": out, "required": "call succeeds (%s)" % op.get("why")}
        return None
    if op.get("expect") == "refuse":
        return {"kind": "accepted-invalid", "observed": "ExtraFiles.add accepted the call", "required": "ValueError/TypeError, nothing changed (%s)" % op["why"],
                "why": op["why"]}
    exp = copy.deepcopy(before)
    lst = exp.setdefault(op["variant"], {}).setdefault(op["arch"], [])
    if isinstance(lst, list):
        lst.append({"file": op["path"], "size": mc.enc(op["size"]), "checksums": mc.enc(op["checksums"])})
    if exp != after:
        return {"kind": "frame-or-content", "observed": {"before": before, "after": after},
                "required": "only [variant][arch] changes: the record {file, size, checksums} is appended"}
    return None
