"""
Shared real-side adapter for .treeinfo (C04, C05, C06, C07, C08, C16, C17, C18).

A tree travels as a JSON-able `spec` (the wire format of Driver/OpsTreeInfo.lean); dictionaries are lists of pairs so
that the insertion order is under the caller's control:

  {"header_version", "release": {"name","short","version"}, "is_layered", "base_product": None | {..},
   "tree": {"arch", "build_timestamp": int | {"$float": repr, "int": n | "int_err": cls}, "platforms": [..]},
   "variants": [{"key","id","uid","name","type","paths": [[field, value]..], "variants": [..]}..],
   "checksums": [[path, type, value]..], "images": [[platform, [[image, path]..]]..],
   "stage2": {"mainimage","instimage"}, "media": {"discnum","totaldiscs"}}

gen(rng, tier) -> (spec, main_variant)   build(spec) -> real TreeInfo   snap(obj) -> canonical spec
"""
import io, struct
import checklib

PATH_FIELDS = ["packages", "repository", "source_packages", "source_repository", "debug_packages", "debug_repository", "identity"]
ERR_NAMES = {"TypeError", "ValueError", "KeyError", "AttributeError", "IndexError", "RuntimeError"}


def mod():
    checklib.use_repo()
    import productmd.treeinfo
    return productmd.treeinfo


def err_name(e):
    """exception -> the model's error class"""
    import configparser
    if isinstance(e, configparser.Error):
        return "ParserError"
    if isinstance(e, RecursionError):
        return "RuntimeError"
    n = type(e).__name__
    return n if n in ERR_NAMES else "Other"


def guarded(f, *a, **k):
    try:
        return {"ok": f(*a, **k)}
    except Exception as e:  # noqa
        return {"err": err_name(e)}


# ------------------------------------------------------------------------------------------------ timestamps / floats
def ts_spec(x):
    if isinstance(x, bool):
        return {"$bool": x}
    if isinstance(x, float):
        try:
            return {"$float": repr(x), "int": int(x)}
        except Exception as e:  # noqa
            return {"$float": repr(x), "int_err": err_name(e)}
    return x


def ts_value(s):
    if isinstance(s, dict):
        if "$bool" in s:
            return s["$bool"]
        return float(s["$float"])
    return s


def model_tree_spec(spec):
    """the wire form for the Lean driver: a bool build timestamp travels as {"$bool": b} (`Ts.bool`: refused by the repaired
    `_assert_type`, written as True/False by the bare isinstance loop - F43); media numbers are ints or None in the typed model
    (bool media numbers are C06's business and are not generated here)"""
    out = dict(spec)
    m = spec["media"]
    out["media"] = dict((k, int(v) if isinstance(v, bool) else v) for k, v in m.items())
    return out


def float_entry(text):
    """what CPython answers for int(float(text)) and repr(float(text))"""
    e = {}
    try:
        f = float(text)
        e["repr"] = repr(f)
        try:
            e["int"] = int(f)
        except Exception as ex:  # noqa
            e["int_err"] = err_name(ex)
    except Exception as ex:  # noqa
        e["int_err"] = e["repr_err"] = err_name(ex)
    return e


def floats_for(spec):
    s = str(ts_value(spec["tree"]["build_timestamp"]))
    return {s: float_entry(s)}


# ------------------------------------------------------------------------------------------------ build / snap
def build_variant(ti, vs):
    T = mod()
    v = T.Variant(ti)
    v.id, v.uid, v.name, v.type = vs["id"], vs["uid"], vs["name"], vs["type"]
    for f, val in vs["paths"]:
        setattr(v.paths, f, val)
    for cs in vs["variants"]:
        c = build_variant(ti, cs)
        if cs["key"] == cs["id"]:
            v.add(c)
        else:
            v.add(c, variant_id=cs["key"])
    return v


def build(spec):
    """spec -> real TreeInfo.  Optional key "_style": 0 (default) fills the default containers in place (item assignment,
    add()), 1 assigns fresh containers / updates sets in place (other construction style, same content)"""
    T = mod()
    style = spec.get("_style", 0)
    ti = T.TreeInfo()
    ti.header.version = spec.get("header_version", "0.0")
    r = spec["release"]
    ti.release.name, ti.release.short, ti.release.version = r["name"], r["short"], r["version"]
    ti.release.is_layered = spec["is_layered"]
    b = spec.get("base_product")
    if b is not None:
        ti.base_product.name, ti.base_product.short, ti.base_product.version = b["name"], b["short"], b["version"]
    t = spec["tree"]
    ti.tree.arch = t["arch"]
    ti.tree.build_timestamp = ts_value(t["build_timestamp"])
    if style == 1:
        ti.tree.platforms.update(t["platforms"])
    else:
        ti.tree.platforms = set(t["platforms"])
    for vs in spec["variants"]:
        v = build_variant(ti, vs)
        if vs["key"] == vs["id"]:
            ti.variants.add(v)
        else:
            ti.variants.add(v, variant_id=vs["key"])
    import os.path
    if style == 1:
        ti.checksums.checksums = dict((path, [typ, val]) for path, typ, val in spec["checksums"])
        ti.images.images = dict((plat, dict((k, p) for k, p in imgs)) for plat, imgs in spec["images"])
    else:
        for path, typ, val in spec["checksums"]:
            if val and not path.startswith("/") and os.path.normpath(path) == path:
                ti.checksums.add(path, typ, val)             # the public way for a path in normal form (stores it verbatim)
            else:
                ti.checksums.checksums[path] = (typ, val)    # the table is a public dict: keys that add() would rewrite
        for plat, imgs in spec["images"]:
            ti.images.images.setdefault(plat, {})
            for k, p_ in imgs:
                ti.images.images[plat][k] = p_
    ti.stage2.mainimage = spec["stage2"]["mainimage"]
    ti.stage2.instimage = spec["stage2"]["instimage"]
    ti.media.discnum = spec["media"]["discnum"]
    ti.media.totaldiscs = spec["media"]["totaldiscs"]
    return ti


def snap_variant(key, v):
    return {"key": key, "id": v.id, "uid": v.uid, "name": v.name, "type": v.type,
            "parent": v.parent.uid if v.parent is not None else None,
            "paths": [[f, getattr(v.paths, f)] for f in PATH_FIELDS if getattr(v.paths, f, None) is not None],
            "variants": [snap_variant(k, c) for k, c in sorted(v.variants.items())]}


def snap(ti):
    """every public fact of a TreeInfo object, dictionaries sorted by key"""
    r, b = ti.release, ti.base_product
    bp = None
    if not (b.name is None and b.short is None and b.version is None):
        bp = {"name": b.name, "short": b.short, "version": b.version}
    return {"header_version": ti.header.version,
            "release": {"name": r.name, "short": r.short, "version": r.version}, "is_layered": r.is_layered,
            "base_product": bp,
            "tree": {"arch": ti.tree.arch, "build_timestamp": ts_spec(ti.tree.build_timestamp), "platforms": sorted(ti.tree.platforms)},
            "variants": [snap_variant(k, v) for k, v in sorted(ti.variants.variants.items())],
            "checksums": [[p, tv[0], tv[1]] for p, tv in sorted(ti.checksums.checksums.items())],
            "images": [[p, [[k, x] for k, x in sorted(imgs.items())]] for p, imgs in sorted(ti.images.images.items())],
            "stage2": {"mainimage": ti.stage2.mainimage, "instimage": ti.stage2.instimage},
            "media": {"discnum": ti.media.discnum, "totaldiscs": ti.media.totaldiscs}}


def canon_variant(v, parent=None, with_parent=True):
    out = {"key": v["key"], "id": v["id"], "uid": v["uid"], "name": v["name"], "type": v["type"],
           "paths": [[f, dict(map(tuple, v["paths"]))[f]] for f in PATH_FIELDS if f in dict(map(tuple, v["paths"]))],
           "variants": sorted((canon_variant(c, v["uid"], with_parent) for c in v["variants"]), key=lambda c: c["key"])}
    if with_parent:
        out["parent"] = parent
    return out


def canon_spec(spec, with_parent=True):
    """canonical form of a spec (dictionaries sorted by key) for comparison with `snap`"""
    s = dict(spec)
    s["tree"] = dict(spec["tree"], platforms=sorted(set(spec["tree"]["platforms"])))
    s["variants"] = sorted((canon_variant(v, None, with_parent) for v in spec["variants"]), key=lambda v: v["key"])
    s["checksums"] = sorted([list(c) for c in spec["checksums"]])
    s["images"] = sorted([[p, sorted([list(x) for x in imgs])] for p, imgs in spec["images"]])
    return s


def norm_variant(v, top):
    return dict(v, key=v["uid"] if top else v["id"], variants=[norm_variant(c, False) for c in v["variants"]])


def norm_spec(spec, versions=None):
    """the documented normalisation of a write/read cycle, written from the property text (independent of the model):
    current header version; base product only when layered; tree arch among the platforms; top-level variants filed
    under their UID and children under their id; falsy stage2 / media values unset"""
    T = mod()
    import productmd.common
    s = dict(spec)
    s["header_version"] = ".".join(str(i) for i in productmd.common.VERSION)
    if not spec["is_layered"]:
        s["base_product"] = None
    s["tree"] = dict(spec["tree"], platforms=sorted(set(spec["tree"]["platforms"]) | {spec["tree"]["arch"]}))
    s["variants"] = [norm_variant(v, True) for v in spec["variants"]]
    st = spec["stage2"]
    s["stage2"] = {"mainimage": st["mainimage"] or None, "instimage": st["instimage"] or None}
    m = spec["media"]
    s["media"] = dict(m) if (m["discnum"] or m["totaldiscs"]) else {"discnum": None, "totaldiscs": None}
    return s


def dumps(ti, main_variant=None):
    f = io.StringIO()
    ti.dump(f, main_variant=main_variant)
    return f.getvalue()


def loads(text):
    T = mod()
    ti = T.TreeInfo()
    ti.loads(text)
    return ti


# ------------------------------------------------------------------------------------------------ independent INI reader
def read_ini(text):
    """minimal reader of the writer's own layout (`[section]`, `key = value`, blank lines), independent of configparser:
    no interpolation, no continuation lines, no comment handling except that nothing is skipped.
    -> {section: {key: value}}; raises ValueError on anything else"""
    doc, cur = {}, None
    for line in text.split("\n"):
        if line == "":
            continue
        if line.startswith("[") and line.endswith("]"):
            name = line[1:-1]
            if name in doc:
                raise ValueError("duplicate section %r" % name)
            cur = doc.setdefault(name, {})
            continue
        if cur is None:
            raise ValueError("text before the first section: %r" % line)
        # the writer's layout is exactly `key + " = " + value` (keys are free of '='): nothing else is stripped, so that a value
        # with an outer blank ("<empty name> <version>" in [general]) is seen as written
        key, sep, value = line.partition(" = ")
        if not sep:
            raise ValueError("not an option line: %r" % line)
        if key in cur:
            raise ValueError("duplicate option %r" % key)
        cur[key] = value
    return doc


# ------------------------------------------------------------------------------------------------ the file the format prescribes
def all_variants(vs, parent=None):
    for v in vs:
        yield v, parent
        for x in all_variants(v["variants"], v):
            yield x


def expected_doc(spec, main_variant=None):
    """the sections and options the current format prescribes for this tree (doc/treeinfo-1.1.rst plus the `parent`
    back-reference the writer emits), written from the format description, not from the model.
    [general] is left to C17."""
    import productmd.common
    d = {}
    d["header"] = {"type": "productmd.treeinfo", "version": ".".join(str(i) for i in productmd.common.VERSION)}
    r = spec["release"]
    d["release"] = {"name": r["name"], "short": r["short"], "version": r["version"]}
    if spec["is_layered"]:
        d["release"]["is_layered"] = "true"
        b = spec["base_product"]
        d["base_product"] = {"name": b["name"], "short": b["short"], "version": b["version"]}
    t = spec["tree"]
    d["tree"] = {"arch": t["arch"], "build_timestamp": str(ts_value(t["build_timestamp"])),
                 "platforms": ",".join(sorted(set(t["platforms"]) | {t["arch"]})),
                 "variants": ",".join(sorted(v["uid"] for v in spec["variants"]))}
    for v, parent in all_variants(spec["variants"]):
        sec = {"id": v["id"], "uid": v["uid"], "name": v["name"], "type": v["type"]}
        for f, val in v["paths"]:
            sec[f] = val
        if parent is not None:
            sec["parent"] = parent["uid"]
        if v["variants"]:
            sec["addons"] = ",".join(sorted(c["uid"] for c in v["variants"]))
        d[("addon-" if v["type"] == "addon" else "variant-") + v["uid"]] = sec
    if spec["checksums"]:
        d["checksums"] = dict((p, "%s:%s" % (ty, val)) for p, ty, val in spec["checksums"])
    for plat, imgs in spec["images"]:
        d["images-" + plat] = dict((k, p) for k, p in imgs)
    st = spec["stage2"]
    if st["mainimage"] or st["instimage"]:
        d["stage2"] = dict((k, st[k]) for k in ("mainimage", "instimage") if st[k])
    m = spec["media"]
    if m["discnum"] or m["totaldiscs"]:
        d["media"] = {"discnum": str(int(m["discnum"])), "totaldiscs": str(int(m["totaldiscs"]))}
    return d


def expected_general(spec, main_variant=None):
    """C17, from the property text: what [general] must say given the authoritative sections"""
    r, t = spec["release"], spec["tree"]
    keys = sorted(v["key"] for v in spec["variants"])
    chosen = main_variant if main_variant is not None else keys[0]
    var = lookup_variant(spec["variants"], chosen)
    g = {"family": r["name"], "version": r["version"], "name": "%s %s" % (r["name"], r["version"]), "arch": t["arch"],
         "platforms": ",".join(sorted(set(t["platforms"]) | {t["arch"]})),
         "timestamp": str(int(ts_value(t["build_timestamp"]))), "variant": chosen, "variants": ",".join(keys)}
    paths = dict(map(tuple, var["paths"]))
    pk = paths.get("packages", paths.get("source_packages") if t["arch"] == "src" else None)
    rp = paths.get("repository", paths.get("source_repository") if t["arch"] == "src" else None)
    if pk is not None:
        g["packagedir"] = pk
    if rp is not None:
        g["repository"] = rp
    return g


def lookup_variant(variants, name):
    """the variant a main-variant name designates: container key, else UID, else dashed path"""
    for v in variants:
        if v["key"] == name:
            return v
    if "-" in name:
        for v in variants:
            if v["uid"] == name:
                return v
        head, tail = name.split("-", 1)
        for v in variants:
            if v["key"] == head:
                return lookup_variant(v["variants"], tail)
    raise KeyError(name)


# ------------------------------------------------------------------------------------------------ generator
NAMES = ["Fedora", "Red Hat Enterprise Linux", "A = B", "x: y", "# hash", "é ü", "100% pure", "%(short)s", "a%%b", "[x]", "Spacewalk"]
SHORTS = ["F", "RHEL", "x y", "Spacewalk", "s%"]
VERSIONS = ["20", "7.1", "Rawhide", "1.2.3", "7", "21", "Beta-1", "", "\u0663.\uff17", "0", "x ;y", "None", "1" * 300]
ARCHES = ["x86_64", "ppc64le", "aarch64", "s390x", "i386", "armhfp"]
PLATFORMS = ["xen", "efi", "Mixed", "uboot", "ppc", "XEN"]
TOP_IDS = ["Server", "Client", "Workstation", "AppStream", "BaseOS", "Everything", "V1", "v2", "CRB"]
KID_IDS = ["HA", "RS", "optional", "debug", "LB", "SAP", "K1", "NFV", "Rt"]
PATH_VALUES = [".", "Packages", "a b/c", "UPPER/lower", "repo%20x", "x=y", "os/Packages", "Server/optional", "p:q", ""]
IMAGE_NAMES = ["kernel", "Kernel", "initrd", "boot.iso", "UPGRADE", "a b", "kernel.img", "efiboot.img", "macboot.img"]
CHECKSUM_PATHS = ["images/boot.iso", "repodata/repomd.xml", "UP/low", "up/low", "images/pxeboot/vmlinuz", "Mixed/Case.img", "mixed/case.img", "a b/c d"]
# relative paths that are legal option names but NOT in os.path.normpath form (the table is a public dict, the writer emits keys
# verbatim), including groups that normalise to the same string: every one must survive as a key of its own
NONNORMAL_PATHS = ["./repodata/repomd.xml", "images//pxeboot/vmlinuz", "a/./b", "a/b", "a//b", "a/b/", "images/dir/", "a/../b", "b", "./b",
                   "x/.", "x", "../up/file", "./", "c/d/../../e", "e"]
# boundary values for every free-text field: all single-line without outer blanks, hence representable in the file syntax
# (comment prefixes after a blank, delimiters, brackets, interpolation syntax, trailing backslash, inner tab / no-break space, long)
BOUNDARY_VALUES = ["Fedora ;Server", "a #b", "a ; b", "a;b", "a ;", "; lead", "# lead", "x = y", "x: y", "[x]", "%(a)s", "%%", "100%",
                   "trailing\\", "tab\tinside", "nb\u00a0sp", "a  b", "images/boot ;1.iso", "L" + "o" * 3000 + "ng", "=", ":", "]x["]
BOUNDARY_NAMES = ["a b", "k;x", "k#x", "a ;b", "a #b", "x y.img", "UP low", "k%", "nb\u00a0sp", "t\tab", "n" * 300,
                  "a@b", "a,b", "a--b", "a..b", "a//b", 'q"uote', "it's", "back\\slash", "]x[", "\u0663\uff17", "\U0001F600", "None", "0", "1.0"]
# audit additions (docs/GENERATOR_AUDIT.md A2/A5): every delimiter of the formats and its doubled form, quotes, non-ASCII digits,
# astral characters, values that look like other types
BOUNDARY_VALUES += ["", "a@b", "a,b", "a,,b", 'say "hi"', "it's", '"quoted"', "'q'", "a--b", "a..b", "a::b", "a//b", "a;;b", "a==b", "a##b",
                    "a\\\\b", "[[x]]", "100%%", "\u0663\uff17", "\U0001F600 astral", "None", "null", "0", "False", "1.0", "true", "ALL"]
# path shapes for the seven path kinds, image paths and stage2 (A3): all relative
PATH_SHAPES = ["Packages/", "./Packages", "os//Packages", "os/./Packages", "../up/Packages", "os/../os/Packages", "os/os/Packages", "./", ".."]
PATH_VALUES += PATH_SHAPES
# ids / platform names / arches with delimiters (no '-' in ids, no ',' anywhere: both travel in comma lists / dashed UIDs)
EXOTIC_IDS = ["A.b", "A b", "A;b", "x=y", "9", "\u00c9", "a:b", "[x]", "#h", "100%", "server", "SERVER", "ha", "Ha", "A_b", "A@b", "n" * 300]
EXOTIC_PLATFORMS = ["x.y", "a b", "p;q", "x=y", "#p", "[p]", "Xen", "p%", "\u00e9"]
ARCHES += ["ppc", "ppc64"]
SRC_NEAR_MISSES = ["SRC", "nosrc", "srcx", "sr", "Src"]


def uniq(xs):
    return list(dict.fromkeys(xs))


def bval(rng, normal, rate=0.15, exclude=""):
    """a value from the normal pool, or (with probability `rate`) a boundary value free of the characters in `exclude`"""
    if rng.random() < rate:
        pool = [v for v in BOUNDARY_VALUES if not any(c in v for c in exclude)]
        return rng.choice(pool)
    return rng.choice(normal) if isinstance(normal, list) else normal


TS_POOL = [1, 123456, -5, 2 ** 40, 2 ** 53, -(2 ** 53), 1417653911, 2 ** 31, 2 ** 32 + 1, 7, -1, 2 ** 32 + 7, 10 ** 7, 10 ** 8, 2 ** 31 - 1]
FLOAT_TS_POOL = [1.5, 2.5, -0.5, 0.99, -2.75, 1417653911.25, 123456.0, 1e15 + 0.5, 4.0e18, 1e22, -1e22, 0.5, 5e-324]
MEDIA_POOL = [(1, 3), (3, 3), (10, 12), (0, 5), (5, 0), (-1, 2), (1, 2 ** 63), (2 ** 31, 2 ** 32 + 7), (2, 1), (1, 1)]     # no bool here: Media._assert_type refuses it (F22/F43 repair), typed model holds ints; C06 probes it


def gen_variant(rng, vid, uid, typ, arch, depth, maxdepth, used):
    fields = rng.sample(PATH_FIELDS, rng.choice([0, 1, 2, 3, 4, 7]))
    if arch == "src" and rng.random() < 0.6:
        fields = [f for f in fields if f.startswith("source_")] or ["source_packages", "source_repository"]
    v = {"key": vid, "id": vid, "uid": uid, "name": bval(rng, [vid, "Name of %s" % vid, "n", "High Availability"]), "type": typ,
         "paths": [[f, bval(rng, PATH_VALUES)] for f in PATH_FIELDS if f in fields], "variants": []}
    if depth < maxdepth:
        for cid in rng.sample(KID_IDS + (EXOTIC_IDS if rng.random() < 0.1 else []), rng.choice([0, 0, 1, 2, 3])):
            cuid = uid + "-" + cid
            if cuid in used:
                continue
            used.add(cuid)
            ctype = rng.choice(["addon", "variant", "optional"])
            c = gen_variant(rng, cid, cuid, ctype, arch, depth + 1, maxdepth, used)
            if rng.random() < 0.08:
                c["key"] = cuid                      # filed with add(c, variant_id=c.uid): comes back filed under its id (norm)
            v["variants"].append(c)
        rng.shuffle(v["variants"])
    return v


def gen(rng, tier="quick", float_ts=False, dashed_by_id=0.0):
    """a valid tree per the quantifier of C04 / C17 -> (spec, main_variant)"""
    arch = "src" if rng.random() < 0.25 else rng.choice(ARCHES)
    layered = rng.random() < 0.3
    version = rng.choice(VERSIONS)
    spec = {"header_version": "0.0",
            "release": {"name": bval(rng, NAMES), "short": bval(rng, SHORTS), "version": version},
            "is_layered": layered,
            "base_product": {"name": bval(rng, NAMES), "short": bval(rng, ["B", "BP"]), "version": rng.choice(["7", "Beta", "21.1", "Beta ;2"])}
            if (layered or rng.random() < 0.1) else None}
    plats = set(rng.sample(PLATFORMS + (EXOTIC_PLATFORMS if rng.random() < 0.2 else []), rng.randint(0, 3)))
    if rng.random() < 0.7:
        plats.add(arch)
    if float_ts:
        ts = rng.choice(FLOAT_TS_POOL + [struct.unpack("<d", struct.pack("<Q", rng.getrandbits(64)))[0]])
        if ts != ts or ts in (float("inf"), float("-inf")) or ts == 0:
            ts = 1417653911.75
        ts = ts_spec(ts)
    else:
        ts = rng.choice(TS_POOL + [rng.randint(-10 ** 6, 2 ** 53)])
        if ts == 0:
            ts = 1
    tops, used = [], set()
    maxdepth = 3 if tier != "quick" or rng.random() < 0.3 else 2
    ids = rng.sample(TOP_IDS + (EXOTIC_IDS if rng.random() < 0.15 else []), rng.randint(1, 3))
    for vid in ids:
        used.add(vid)
        tops.append(gen_variant(rng, vid, vid, rng.choice(["variant", "variant", "optional"]), arch, 1, maxdepth, used))
    if rng.random() < 0.35:
        # a top-level variant whose UID differs from its id ("Server-optional"): filed under its UID, which is what
        # the reader itself does (`add(v, variant_id=v.uid)`); with probability `dashed_by_id` filed under the id (F8)
        base = rng.choice(ids)
        kind = rng.choice(["optional", "variant"])
        vid = "optional" if kind == "optional" else base + "optional"
        uid = base + "-optional"
        if uid not in used:
            used.add(uid)
            v = gen_variant(rng, vid, uid, kind, arch, 1, maxdepth, used)
            v["key"] = vid if rng.random() < dashed_by_id else uid
            tops.append(v)
    rng.shuffle(tops)
    images = []
    for p in sorted(plats):
        if rng.random() < 0.6:
            names = rng.sample(uniq(IMAGE_NAMES + (BOUNDARY_NAMES if rng.random() < 0.3 else [])), rng.randint(0, 4))
            images.append([p, [[k, bval(rng, ["images/%s/%s" % (p, k)] * 4 + PATH_SHAPES[:7])] for k in names]])
    rng.shuffle(images)
    checks = []
    for p in rng.sample(uniq(CHECKSUM_PATHS + (BOUNDARY_NAMES if rng.random() < 0.3 else []) + (NONNORMAL_PATHS if rng.random() < 0.35 else [])),
                        rng.choice([0, 0, 1, 2, 3, 4])):
        checks.append([p, bval(rng, ["sha256", "md5", "sha1", "sha512", "SHA256", "Sha256"], rate=0.05, exclude=":"),
                       bval(rng, "%x" % rng.getrandbits(rng.choice([64, 128, 160, 256])), exclude=":")])
    stage2 = {"mainimage": bval(rng, ["LiveOS/squashfs.img"] + PATH_SHAPES[:6]) if rng.random() < 0.5 else rng.choice([None, None, ""]),
              "instimage": bval(rng, ["images/install.img"] + PATH_SHAPES[:6]) if rng.random() < 0.25 else rng.choice([None, None, None, ""])}
    media = {"discnum": None, "totaldiscs": None}
    if rng.random() < 0.4:
        tot = rng.randint(1, 4)
        media = {"discnum": rng.randint(1, tot), "totaldiscs": tot}
        if rng.random() < 0.2:
            media = {"discnum": rng.randint(0, 9), "totaldiscs": rng.randint(1, 9)}
        elif rng.random() < 0.25:
            a_, b_ = rng.choice(MEDIA_POOL)
            media = {"discnum": a_, "totaldiscs": b_}
    spec.update({"tree": {"arch": arch, "build_timestamp": ts, "platforms": sorted(plats)}, "variants": tops, "checksums": checks,
                 "images": images, "stage2": stage2, "media": media})
    keys = [v["key"] for v in tops]
    mv = rng.choice([None] + keys) if rng.random() < 0.7 else None
    return spec, mv


# ------------------------------------------------------------------------------------------------ arch classes x path presence
# every value class of the tree architecture the code distinguishes anywhere (RPM_ARCHES: `src`, `nosrc`, `noarch`, a binary
# arch) crossed with every presence combination of the four paths [general] is computed from
ARCH_CLASSES = ["src", "nosrc", "noarch", "x86_64"]
ARCH_PATH_FIELDS = ["packages", "repository", "source_packages", "source_repository"]


def set_arch(spec, arch):
    """the same tree for another architecture (platform and image tables keyed by the old architecture follow)"""
    old = spec["tree"]["arch"]
    spec["tree"]["arch"] = arch
    spec["tree"]["platforms"] = sorted(set(arch if p == old else p for p in spec["tree"]["platforms"]))
    seen, images = set(), []
    for p, im in spec["images"]:
        p = arch if p == old else p
        if p not in seen and not (p != arch and p.endswith("-" + arch)):
            seen.add(p)
            images.append([p, im])
    spec["images"] = images
    return spec


def gen_arch_paths(rng, tier, i):
    """case i of the cross product ARCH_CLASSES x 2^4 path presences (all top-level variants get the combination, so that every
    choice of main variant meets it) -> (spec, main_variant, label)"""
    arch = ARCH_CLASSES[(i // 16) % len(ARCH_CLASSES)]
    mask = i % 16
    spec, mv = gen(rng, tier)
    set_arch(spec, arch)
    vals = {"packages": "Packages", "repository": "repo", "source_packages": "SRPMS", "source_repository": "src-repo"}
    for v in spec["variants"]:
        for b, f in enumerate(ARCH_PATH_FIELDS):
            _set_path(v, f, (vals[f] + "/" + v["id"]) if mask & (1 << b) else None)
    keys = [v["key"] for v in spec["variants"]]
    mv = None if (i // 64) % 2 == 0 else keys[i % len(keys)]
    return spec, mv, "%s:%s" % (arch, "".join(f[0] if f.startswith("s") is False else f[7].upper() for f in ARCH_PATH_FIELDS if mask & (1 << ARCH_PATH_FIELDS.index(f))) or "-")


# ------------------------------------------------------------------------------------------------ named classes (round-robin)
def _top(spec):
    return spec["variants"][0]


def _set_path(v, field, value):
    v["paths"] = [[f, p] for f, p in v["paths"] if f != field] + ([[field, value]] if value is not None else [])
    v["paths"].sort(key=lambda fp: PATH_FIELDS.index(fp[0]))


def gen_class(rng, cls, tier="quick", float_ts=False):
    """a valid tree exhibiting the named class (docs/audit_C04.md); every class stays inside the quantifier of C04/C17 unless
    its name ends in '!' (region of a known finding / refusal).  -> (spec, main_variant)"""
    spec, mv = gen(rng, tier, float_ts=float_ts)
    arch = spec["tree"]["arch"]
    if cls == "instimage-only":                       # C04-u1a
        spec["stage2"] = {"mainimage": rng.choice([None, ""]), "instimage": bval(rng, ["images/install.img", "x ;y", "./i//m"])}
    elif cls == "stage2-both":
        spec["stage2"] = {"mainimage": bval(rng, ["LiveOS/squashfs.img"]), "instimage": bval(rng, ["images/install.img"])}
    elif cls == "src-empty-packages":                 # C17-u5a: "" is not None, the src fallback must not apply
        spec["tree"]["arch"] = "src"
        spec["tree"]["platforms"] = sorted(set(p for p in spec["tree"]["platforms"] if p != arch) | {"src"})
        spec["images"] = [[("src" if p == arch else p), i] for p, i in spec["images"]]
        v = _top(spec)
        _set_path(v, "packages", rng.choice(["", "", "Packages"]))
        _set_path(v, "repository", rng.choice(["", None]))
        _set_path(v, "source_packages", "SRPMS")
        _set_path(v, "source_repository", "src/repo")
        mv = rng.choice([None, v["key"]]) if len(spec["variants"]) == 1 else v["key"]
    elif cls == "src-only-source-paths":
        spec["tree"]["arch"] = "src"
        spec["tree"]["platforms"] = sorted(set(p for p in spec["tree"]["platforms"] if p != arch) | {"src"})
        spec["images"] = [[("src" if p == arch else p), i] for p, i in spec["images"]]
        for v in spec["variants"]:
            v["paths"] = [[f, p] for f, p in v["paths"] if f.startswith("source_")] or [["source_packages", "SRPMS"], ["source_repository", "."]]
    elif cls == "src-near-miss-arch":                 # the literal "src" plus extensions / prefix / other case: no fallback
        new = rng.choice(SRC_NEAR_MISSES)
        spec["tree"]["arch"] = new
        spec["tree"]["platforms"] = sorted(set(p for p in spec["tree"]["platforms"] if p != arch) | {new})
        spec["images"] = [[(new if p == arch else p), i] for p, i in spec["images"]]
        for v in spec["variants"]:
            v["paths"] = [["source_packages", "SRPMS"], ["source_repository", "."]]
    elif cls == "blank-semicolon-values":             # C04-r5b
        vals = ["Fedora ;Server", "a #b", "x ; y", "images/boot ;1.iso"]
        spec["release"]["name"] = rng.choice(vals)
        v = _top(spec)
        v["name"] = rng.choice(vals)
        _set_path(v, rng.choice(PATH_FIELDS), rng.choice(vals))
        spec["checksums"] = spec["checksums"][:2] + [["images/x ;y.iso", "sha256", rng.choice(vals)]]
    elif cls == "nonnormal-checksum-keys":            # C04-t4a, with a pair that normalises to the same string
        keys = rng.sample(NONNORMAL_PATHS, 3) + rng.choice([["a/b", "a//b"], ["b", "a/../b"], ["x", "x/."], ["e", "c/d/../../e"]])
        spec["checksums"] = [[k, "sha256", "%x" % rng.getrandbits(64)] for k in uniq(keys)]
    elif cls == "case-twins":                         # names differing only in case inside one tree
        spec["variants"] = [v for v in spec["variants"] if v["uid"].lower() not in ("server",)]
        used = set(u["uid"] for u, _ in all_variants(spec["variants"]))
        for vid in ("Server", "server", "SERVER"):
            if vid not in used:
                spec["variants"].append(gen_variant(rng, vid, vid, "variant", spec["tree"]["arch"], 1, 2, used | {vid}))
        spec["tree"]["platforms"] = sorted(set(spec["tree"]["platforms"]) | {"xen", "XEN", "Xen"})
        spec["images"] = [[p, i] for p, i in spec["images"] if p not in ("xen", "XEN", "Xen")] + [
            ["xen", [["kernel", "a"], ["Kernel", "b"], ["KERNEL", "c"]]], ["XEN", [["kernel", "d"]]]]
        spec["checksums"] = [["UP/low", "sha256", "aa"], ["up/low", "SHA256", "AA"], ["Up/Low", "Sha256", "aA"]]
        mv = rng.choice([None, "server", "Server", "SERVER"])
    elif cls == "empty-strings":
        spec["release"].update(name=rng.choice(["", "Fedora"]), short="", version=rng.choice(["", "20"]))
        v = _top(spec)
        v["name"] = ""
        v["paths"] = [[f, ""] for f in PATH_FIELDS]
        if spec["images"]:
            spec["images"][0][1] = [[k, ""] for k, _ in spec["images"][0][1]] or spec["images"][0][1]
        spec["checksums"] = spec["checksums"][:1] + [["empty/value", "", ""], ["empty/type", "", "ab"]]
        spec["stage2"] = {"mainimage": rng.choice(["", None, "LiveOS/squashfs.img"]), "instimage": ""}
    elif cls == "numbers":
        a_, b_ = rng.choice(MEDIA_POOL)
        spec["media"] = {"discnum": a_, "totaldiscs": b_}
        if not float_ts:
            spec["tree"]["build_timestamp"] = rng.choice(TS_POOL)
    elif cls == "platform-near-miss":                 # near the "-<arch>" suffix rule of the reader (F25 is the rule itself)
        a = spec["tree"]["arch"]
        near = ["xen" + a, a + "-xen", a + "x", "x" + a, a.upper() if a.upper() != a else a + "2"]
        spec["tree"]["platforms"] = sorted(set(spec["tree"]["platforms"]) | set(near) | {a})
        spec["images"] = [[p, i] for p, i in spec["images"] if p not in near] + [[p, [["kernel", "images/%s" % p]]] for p in near] + (
            [] if any(p == a for p, _ in spec["images"]) else [[a, [["kernel", "k"]]]])
    elif cls == "exotic-ids":
        used = set(u["uid"] for u, _ in all_variants(spec["variants"]))
        for vid in rng.sample(EXOTIC_IDS, 3):
            if vid not in used:
                used.add(vid)
                spec["variants"].append(gen_variant(rng, vid, vid, rng.choice(["variant", "optional"]), spec["tree"]["arch"], 1, 2, used))
        spec["tree"]["platforms"] = sorted(set(spec["tree"]["platforms"]) | set(rng.sample(EXOTIC_PLATFORMS, 2)))
    elif cls == "child-keyed-by-uid":
        v = _top(spec)
        if not v["variants"]:
            v["variants"].append(gen_variant(rng, "HA", v["uid"] + "-HA", "addon", spec["tree"]["arch"], 2, 2, set()))
        for c in v["variants"]:
            c["key"] = c["uid"]
        mv = rng.choice([None, v["key"]] + ([] if "-" in v["key"] else [v["key"] + "-" + v["variants"][0]["key"]]))
    elif cls == "dashed-top-by-uid":
        base = _top(spec)["uid"]
        uid = base + "-optional"
        if all(u["uid"] != uid for u, _ in all_variants(spec["variants"])):
            v = gen_variant(rng, "optional", uid, "optional", spec["tree"]["arch"], 1, 2, set(u["uid"] for u, _ in all_variants(spec["variants"])) | {uid})
            v["key"] = uid
            spec["variants"].append(v)
        mv = rng.choice([None, uid])
    elif cls == "deep-all-child-types":
        v = _top(spec)
        v["variants"] = []
        for i, ct in enumerate(["addon", "variant", "optional"]):
            c = gen_variant(rng, "K%d" % i, "%s-K%d" % (v["uid"], i), ct, spec["tree"]["arch"], 2, 2, set())
            c["variants"] = []
            for j, gt in enumerate(["optional", "addon", "variant"]):
                g = gen_variant(rng, "G%d" % j, "%s-G%d" % (c["uid"], j), gt, spec["tree"]["arch"], 3, 3, set())
                g["variants"] = []
                c["variants"].append(g)
            v["variants"].append(c)
    elif cls == "all-seven-paths":
        for v, _ in all_variants(spec["variants"]):
            v["paths"] = [[f, bval(rng, PATH_VALUES)] for f in PATH_FIELDS]
    elif cls == "last-path-only":                     # the LAST entry of the field table alone
        for v, _ in all_variants(spec["variants"]):
            v["paths"] = [[PATH_FIELDS[-1], "identity.pem"]]
    elif cls == "empty-containers":
        spec["tree"]["platforms"] = [p for p, _ in spec["images"]][:1]
        spec["images"] = [[p, []] for p, _ in spec["images"][:1]]       # a bucket that exists and is empty
        spec["checksums"] = []
        for v, _ in all_variants(spec["variants"]):
            v["paths"] = []
    elif cls == "unicode-typelike":
        pool = ["٣７", "\U0001F600 astral", "None", "null", "0", "False", "1.0", "true", "ALL", "L" + "o" * 3000 + "ng"]
        spec["release"].update(name=rng.choice(pool), short=rng.choice(pool))
        v = _top(spec)
        v["name"] = rng.choice(pool)
        _set_path(v, "packages", rng.choice(pool))
        spec["stage2"]["mainimage"] = rng.choice(pool)
        spec["checksums"] = spec["checksums"][:1] + [[rng.choice(["٣７", "None", "0", "1.0"]), rng.choice(pool), rng.choice(pool)]]
    elif cls == "path-shapes":
        for v, _ in all_variants(spec["variants"]):
            v["paths"] = [[f, rng.choice(PATH_SHAPES)] for f in rng.sample(PATH_FIELDS, 3)]
            v["paths"].sort(key=lambda fp: PATH_FIELDS.index(fp[0]))
        spec["stage2"] = {"mainimage": rng.choice(PATH_SHAPES), "instimage": rng.choice(PATH_SHAPES + [None])}
        if spec["images"]:
            spec["images"][0][1] = [[k, rng.choice(PATH_SHAPES)] for k, _ in spec["images"][0][1]] or [["kernel", "./k//x/"]]
    elif cls == "layered-boundary":
        spec["is_layered"] = True
        spec["base_product"] = {"name": bval(rng, NAMES, rate=0.6), "short": bval(rng, ["B"], rate=0.6), "version": rng.choice(["7", "", "Beta ;2", "٣"])}
    elif cls == "base-product-unlayered":
        spec["is_layered"] = False
        spec["base_product"] = {"name": "Base", "short": "B", "version": "7"}
    elif cls == "platforms-without-arch":
        spec["tree"]["platforms"] = [p for p in spec["tree"]["platforms"] if p != spec["tree"]["arch"]]
        spec["images"] = [[p, i] for p, i in spec["images"] if p != spec["tree"]["arch"]]
    elif cls == "bool-timestamp!":                    # F43 (builder id F35): refused on dump since the repair
        spec["tree"]["build_timestamp"] = {"$bool": True}
    elif cls == "no-variants!":                       # F12: refused (IndexError), real and model must agree on the refusal
        spec["variants"] = []
        mv = None
    # tables are dicts: one entry per key
    spec["checksums"] = list(dict((c[0], c) for c in spec["checksums"]).values())
    spec["images"] = [[p, list(dict((x[0], x) for x in imgs).values())] for p, imgs in dict((i[0], i) for i in spec["images"]).values()]
    keys = [v["key"] for v in spec["variants"]]
    if mv is not None and cls not in ("child-keyed-by-uid",) and mv not in keys:
        mv = None
    return spec, mv


CLASSES = ["instimage-only", "stage2-both", "src-empty-packages", "src-only-source-paths", "src-near-miss-arch", "blank-semicolon-values",
           "nonnormal-checksum-keys", "case-twins", "empty-strings", "numbers", "platform-near-miss", "exotic-ids", "child-keyed-by-uid",
           "dashed-top-by-uid", "deep-all-child-types", "all-seven-paths", "last-path-only", "empty-containers", "unicode-typelike",
           "path-shapes", "layered-boundary", "base-product-unlayered", "platforms-without-arch", "bool-timestamp!", "no-variants!"]


# ------------------------------------------------------------------------------------------------ in-place updates (sequences)
def gen_update(rng, spec):
    """a modification of an existing object that keeps the forest shape: new scalar facts, stage2, media, tables refilled in place,
    names / paths of variants at any depth"""
    other, _ = gen(rng)
    upd = {"release": other["release"], "stage2": other["stage2"], "media": other["media"], "checksums": other["checksums"],
           "build_timestamp": rng.choice(TS_POOL)}
    plats = spec["tree"]["platforms"]
    upd["images"] = [[p, [[k, "new/%s" % k] for k in rng.sample(IMAGE_NAMES, rng.randint(0, 3))]] for p in rng.sample(plats, min(len(plats), rng.randint(0, 2)))]
    allv = [v for v, _ in all_variants(spec["variants"])]
    upd["variants"] = dict((v["uid"], {"name": bval(rng, ["renamed", "n2"]), "paths": [[f, bval(rng, PATH_VALUES)] for f in PATH_FIELDS if rng.random() < 0.4]})
                           for v in rng.sample(allv, min(len(allv), 2)))
    return upd


def apply_update_spec(spec, upd):
    """the spec after `apply_update`"""
    import copy
    s = copy.deepcopy(spec)
    s["release"] = dict(upd["release"])
    s["stage2"] = dict(upd["stage2"])
    s["media"] = dict(upd["media"])
    s["checksums"] = [list(c) for c in upd["checksums"]]
    s["images"] = [[p, [list(x) for x in imgs]] for p, imgs in upd["images"]]
    s["tree"]["build_timestamp"] = upd["build_timestamp"]
    for v, _ in all_variants(s["variants"]):
        u = upd["variants"].get(v["uid"])
        if u:
            v["name"] = u["name"]
            v["paths"] = [list(x) for x in u["paths"]]
    return s


def _walk(container):
    for v in list(container.variants.values()):
        yield v
        for x in _walk(v):
            yield x


def apply_update(ti, upd):
    """mutate a real TreeInfo in place (the containers the object already has are kept and refilled)"""
    r = upd["release"]
    ti.release.name, ti.release.short, ti.release.version = r["name"], r["short"], r["version"]
    ti.tree.build_timestamp = upd["build_timestamp"]
    ti.stage2.mainimage, ti.stage2.instimage = upd["stage2"]["mainimage"], upd["stage2"]["instimage"]
    ti.media.discnum, ti.media.totaldiscs = upd["media"]["discnum"], upd["media"]["totaldiscs"]
    ti.checksums.checksums.clear()
    for p, t, v in upd["checksums"]:
        ti.checksums.checksums[p] = (t, v)
    ti.images.images.clear()
    for p, imgs in upd["images"]:
        ti.images.images[p] = dict((k, x) for k, x in imgs)
    for v in _walk(ti.variants):
        u = upd["variants"].get(v.uid)
        if u:
            v.name = u["name"]
            pd = dict(map(tuple, u["paths"]))
            for f in PATH_FIELDS:
                setattr(v.paths, f, pd.get(f))


def read_only_calls(ti):
    """every public read-only entry point; results are discarded, the state must not change"""
    out = []
    for f in (lambda: str(ti), lambda: list(ti.variants), lambda: [ti[k] for k in list(ti.variants.variants)],
              lambda: ti.variants.get_variants(recursive=True), lambda: ti.images.platforms, lambda: ti.release.major_version,
              lambda: ti.release.minor_version, lambda: ti.header.version_tuple, lambda: [v.arch for v in _walk(ti.variants)],
              lambda: [len(v) for v in _walk(ti.variants)], lambda: ti.validate()):
        try:
            out.append(f())
        except Exception:  # noqa
            out.append(None)
    return len(out)
