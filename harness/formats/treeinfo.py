"""
Shared real-side adapter for .treeinfo (C04, C05, C06, C07, C08, C16, C17, C18).

A tree travels as a JSON-able `spec` (the wire format of Driver/OpsTreeInfo.lean); dictionaries are lists of pairs so
that the insertion order is under the caller's control:

  {"header_version", "release": {"name","short","version"}, "is_layered", "base_product": None | {..},
   "tree": {"arch", "build_timestamp": int | {"$float": repr, "int": n | "int_err": cls}, "platforms": [..]},
   "variants": [{"key","id","uid","name","type","paths": [[field, value]..], "variants": [..]}..],
   "checksums": [[path, type, value]..], "images": [[platform, [[image, path]..]]..],
   "stage2": {"mainimage","instimage"}, "media": {"discnum","totaldiscs"}}

gen(rng, tier) -> (spec, main_variant)   build(spec) -> real TreeInfo   snap(obj) -> canonical spec
"""
import io, struct
import checklib

PATH_FIELDS = ["packages", "repository", "source_packages", "source_repository", "debug_packages", "debug_repository", "identity"]
ERR_NAMES = {"TypeError", "ValueError", "KeyError", "AttributeError", "IndexError", "RuntimeError"}


def mod():
    checklib.use_repo()
    import productmd.treeinfo
    return productmd.treeinfo


def err_name(e):
    """exception -> the model's error class"""
    import configparser
    if isinstance(e, configparser.Error):
        return "ParserError"
    if isinstance(e, RecursionError):
        return "RuntimeError"
    n = type(e).__name__
    return n if n in ERR_NAMES else "Other"


def guarded(f, *a, **k):
    try:
        return {"ok": f(*a, **k)}
    except Exception as e:  # noqa
        return {"err": err_name(e)}


# ------------------------------------------------------------------------------------------------ timestamps / floats
def ts_spec(x):
    if isinstance(x, float):
        try:
            return {"$float": repr(x), "int": int(x)}
        except Exception as e:  # noqa
            return {"$float": repr(x), "int_err": err_name(e)}
    return x


def ts_value(s):
    if isinstance(s, dict):
        return float(s["$float"])
    return s


def float_entry(text):
    """what CPython answers for int(float(text)) and repr(float(text))"""
    e = {}
    try:
        f = float(text)
        e["repr"] = repr(f)
        try:
            e["int"] = int(f)
        except Exception as ex:  # noqa
            e["int_err"] = err_name(ex)
    except Exception as ex:  # noqa
        e["int_err"] = e["repr_err"] = err_name(ex)
    return e


def floats_for(spec):
    s = str(ts_value(spec["tree"]["build_timestamp"]))
    return {s: float_entry(s)}


# ------------------------------------------------------------------------------------------------ build / snap
def build_variant(ti, vs):
    T = mod()
    v = T.Variant(ti)
    v.id, v.uid, v.name, v.type = vs["id"], vs["uid"], vs["name"], vs["type"]
    for f, val in vs["paths"]:
        setattr(v.paths, f, val)
    for cs in vs["variants"]:
        c = build_variant(ti, cs)
        if cs["key"] == cs["id"]:
            v.add(c)
        else:
            v.add(c, variant_id=cs["key"])
    return v


def build(spec):
    T = mod()
    ti = T.TreeInfo()
    ti.header.version = spec.get("header_version", "0.0")
    r = spec["release"]
    ti.release.name, ti.release.short, ti.release.version = r["name"], r["short"], r["version"]
    ti.release.is_layered = spec["is_layered"]
    b = spec.get("base_product")
    if b is not None:
        ti.base_product.name, ti.base_product.short, ti.base_product.version = b["name"], b["short"], b["version"]
    t = spec["tree"]
    ti.tree.arch = t["arch"]
    ti.tree.build_timestamp = ts_value(t["build_timestamp"])
    ti.tree.platforms = set(t["platforms"])
    for vs in spec["variants"]:
        v = build_variant(ti, vs)
        if vs["key"] == vs["id"]:
            ti.variants.add(v)
        else:
            ti.variants.add(v, variant_id=vs["key"])
    import os.path
    for path, typ, val in spec["checksums"]:
        if val and not path.startswith("/") and os.path.normpath(path) == path:
            ti.checksums.add(path, typ, val)             # the public way for a path in normal form (stores it verbatim)
        else:
            ti.checksums.checksums[path] = (typ, val)    # the table is a public dict: keys that add() would rewrite

    for plat, imgs in spec["images"]:
        ti.images.images[plat] = dict((k, p) for k, p in imgs)
    ti.stage2.mainimage = spec["stage2"]["mainimage"]
    ti.stage2.instimage = spec["stage2"]["instimage"]
    ti.media.discnum = spec["media"]["discnum"]
    ti.media.totaldiscs = spec["media"]["totaldiscs"]
    return ti


def snap_variant(key, v):
    return {"key": key, "id": v.id, "uid": v.uid, "name": v.name, "type": v.type,
            "parent": v.parent.uid if v.parent is not None else None,
            "paths": [[f, getattr(v.paths, f)] for f in PATH_FIELDS if getattr(v.paths, f, None) is not None],
            "variants": [snap_variant(k, c) for k, c in sorted(v.variants.items())]}


def snap(ti):
    """every public fact of a TreeInfo object, dictionaries sorted by key"""
    r, b = ti.release, ti.base_product
    bp = None
    if not (b.name is None and b.short is None and b.version is None):
        bp = {"name": b.name, "short": b.short, "version": b.version}
    return {"header_version": ti.header.version,
            "release": {"name": r.name, "short": r.short, "version": r.version}, "is_layered": r.is_layered,
            "base_product": bp,
            "tree": {"arch": ti.tree.arch, "build_timestamp": ts_spec(ti.tree.build_timestamp), "platforms": sorted(ti.tree.platforms)},
            "variants": [snap_variant(k, v) for k, v in sorted(ti.variants.variants.items())],
            "checksums": [[p, tv[0], tv[1]] for p, tv in sorted(ti.checksums.checksums.items())],
            "images": [[p, [[k, x] for k, x in sorted(imgs.items())]] for p, imgs in sorted(ti.images.images.items())],
            "stage2": {"mainimage": ti.stage2.mainimage, "instimage": ti.stage2.instimage},
            "media": {"discnum": ti.media.discnum, "totaldiscs": ti.media.totaldiscs}}


def canon_variant(v, parent=None, with_parent=True):
    out = {"key": v["key"], "id": v["id"], "uid": v["uid"], "name": v["name"], "type": v["type"],
           "paths": [[f, dict(map(tuple, v["paths"]))[f]] for f in PATH_FIELDS if f in dict(map(tuple, v["paths"]))],
           "variants": sorted((canon_variant(c, v["uid"], with_parent) for c in v["variants"]), key=lambda c: c["key"])}
    if with_parent:
        out["parent"] = parent
    return out


def canon_spec(spec, with_parent=True):
    """canonical form of a spec (dictionaries sorted by key) for comparison with `snap`"""
    s = dict(spec)
    s["tree"] = dict(spec["tree"], platforms=sorted(set(spec["tree"]["platforms"])))
    s["variants"] = sorted((canon_variant(v, None, with_parent) for v in spec["variants"]), key=lambda v: v["key"])
    s["checksums"] = sorted([list(c) for c in spec["checksums"]])
    s["images"] = sorted([[p, sorted([list(x) for x in imgs])] for p, imgs in spec["images"]])
    return s


def norm_variant(v, top):
    return dict(v, key=v["uid"] if top else v["id"], variants=[norm_variant(c, False) for c in v["variants"]])


def norm_spec(spec, versions=None):
    """the documented normalisation of a write/read cycle, written from the property text (independent of the model):
    current header version; base product only when layered; tree arch among the platforms; top-level variants filed
    under their UID and children under their id; falsy stage2 / media values unset"""
    T = mod()
    import productmd.common
    s = dict(spec)
    s["header_version"] = ".".join(str(i) for i in productmd.common.VERSION)
    if not spec["is_layered"]:
        s["base_product"] = None
    s["tree"] = dict(spec["tree"], platforms=sorted(set(spec["tree"]["platforms"]) | {spec["tree"]["arch"]}))
    s["variants"] = [norm_variant(v, True) for v in spec["variants"]]
    st = spec["stage2"]
    s["stage2"] = {"mainimage": st["mainimage"] or None, "instimage": st["instimage"] or None}
    m = spec["media"]
    s["media"] = dict(m) if (m["discnum"] or m["totaldiscs"]) else {"discnum": None, "totaldiscs": None}
    return s


def dumps(ti, main_variant=None):
    f = io.StringIO()
    ti.dump(f, main_variant=main_variant)
    return f.getvalue()


def loads(text):
    T = mod()
    ti = T.TreeInfo()
    ti.loads(text)
    return ti


# ------------------------------------------------------------------------------------------------ independent INI reader
def read_ini(text):
    """minimal reader of the writer's own layout (`[section]`, `key = value`, blank lines), independent of configparser:
    no interpolation, no continuation lines, no comment handling except that nothing is skipped.
    -> {section: {key: value}}; raises ValueError on anything else"""
    doc, cur = {}, None
    for line in text.split("\n"):
        if line == "":
            continue
        if line.startswith("[") and line.endswith("]"):
            name = line[1:-1]
            if name in doc:
                raise ValueError("duplicate section %r" % name)
            cur = doc.setdefault(name, {})
            continue
        if cur is None:
            raise ValueError("text before the first section: %r" % line)
        i = line.find("=")
        if i < 0:
            raise ValueError("not an option line: %r" % line)
        key, value = line[:i].rstrip(" "), line[i + 1:].lstrip(" ")
        if key in cur:
            raise ValueError("duplicate option %r" % key)
        cur[key] = value
    return doc


# ------------------------------------------------------------------------------------------------ the file the format prescribes
def all_variants(vs, parent=None):
    for v in vs:
        yield v, parent
        for x in all_variants(v["variants"], v):
            yield x


def expected_doc(spec, main_variant=None):
    """the sections and options the current format prescribes for this tree (doc/treeinfo-1.1.rst plus the `parent`
    back-reference the writer emits), written from the format description, not from the model.
    [general] is left to C17."""
    import productmd.common
    d = {}
    d["header"] = {"type": "productmd.treeinfo", "version": ".".join(str(i) for i in productmd.common.VERSION)}
    r = spec["release"]
    d["release"] = {"name": r["name"], "short": r["short"], "version": r["version"]}
    if spec["is_layered"]:
        d["release"]["is_layered"] = "true"
        b = spec["base_product"]
        d["base_product"] = {"name": b["name"], "short": b["short"], "version": b["version"]}
    t = spec["tree"]
    d["tree"] = {"arch": t["arch"], "build_timestamp": str(ts_value(t["build_timestamp"])),
                 "platforms": ",".join(sorted(set(t["platforms"]) | {t["arch"]})),
                 "variants": ",".join(sorted(v["uid"] for v in spec["variants"]))}
    for v, parent in all_variants(spec["variants"]):
        sec = {"id": v["id"], "uid": v["uid"], "name": v["name"], "type": v["type"]}
        for f, val in v["paths"]:
            sec[f] = val
        if parent is not None:
            sec["parent"] = parent["uid"]
        if v["variants"]:
            sec["addons"] = ",".join(sorted(c["uid"] for c in v["variants"]))
        d[("addon-" if v["type"] == "addon" else "variant-") + v["uid"]] = sec
    if spec["checksums"]:
        d["checksums"] = dict((p, "%s:%s" % (ty, val)) for p, ty, val in spec["checksums"])
    for plat, imgs in spec["images"]:
        d["images-" + plat] = dict((k, p) for k, p in imgs)
    st = spec["stage2"]
    if st["mainimage"] or st["instimage"]:
        d["stage2"] = dict((k, st[k]) for k in ("mainimage", "instimage") if st[k])
    m = spec["media"]
    if m["discnum"] or m["totaldiscs"]:
        d["media"] = {"discnum": str(m["discnum"]), "totaldiscs": str(m["totaldiscs"])}
    return d


def expected_general(spec, main_variant=None):
    """C17, from the property text: what [general] must say given the authoritative sections"""
    r, t = spec["release"], spec["tree"]
    keys = sorted(v["key"] for v in spec["variants"])
    chosen = main_variant if main_variant is not None else keys[0]
    var = lookup_variant(spec["variants"], chosen)
    g = {"family": r["name"], "version": r["version"], "name": "%s %s" % (r["name"], r["version"]), "arch": t["arch"],
         "platforms": ",".join(sorted(set(t["platforms"]) | {t["arch"]})),
         "timestamp": str(int(ts_value(t["build_timestamp"]))), "variant": chosen, "variants": ",".join(keys)}
    paths = dict(map(tuple, var["paths"]))
    pk = paths.get("packages", paths.get("source_packages") if t["arch"] == "src" else None)
    rp = paths.get("repository", paths.get("source_repository") if t["arch"] == "src" else None)
    if pk is not None:
        g["packagedir"] = pk
    if rp is not None:
        g["repository"] = rp
    return g


def lookup_variant(variants, name):
    """the variant a main-variant name designates: container key, else UID, else dashed path"""
    for v in variants:
        if v["key"] == name:
            return v
    if "-" in name:
        for v in variants:
            if v["uid"] == name:
                return v
        head, tail = name.split("-", 1)
        for v in variants:
            if v["key"] == head:
                return lookup_variant(v["variants"], tail)
    raise KeyError(name)


# ------------------------------------------------------------------------------------------------ generator
NAMES = ["Fedora", "Red Hat Enterprise Linux", "A = B", "x: y", "# hash", "é ü", "100% pure", "%(short)s", "a%%b", "[x]", "Spacewalk"]
SHORTS = ["F", "RHEL", "x y", "Spacewalk", "s%"]
VERSIONS = ["20", "7.1", "Rawhide", "1.2.3", "7", "21", "Beta-1"]
ARCHES = ["x86_64", "ppc64le", "aarch64", "s390x", "i386", "armhfp"]
PLATFORMS = ["xen", "efi", "Mixed", "uboot", "ppc", "XEN"]
TOP_IDS = ["Server", "Client", "Workstation", "AppStream", "BaseOS", "Everything", "V1", "v2", "CRB"]
KID_IDS = ["HA", "RS", "optional", "debug", "LB", "SAP", "K1", "NFV", "Rt"]
PATH_VALUES = [".", "Packages", "a b/c", "UPPER/lower", "repo%20x", "x=y", "os/Packages", "Server/optional", "p:q", ""]
IMAGE_NAMES = ["kernel", "Kernel", "initrd", "boot.iso", "UPGRADE", "a b", "kernel.img", "efiboot.img", "macboot.img"]
CHECKSUM_PATHS = ["images/boot.iso", "repodata/repomd.xml", "UP/low", "images/pxeboot/vmlinuz", "Mixed/Case.img", "a b/c d"]
# relative paths that are legal option names but NOT in os.path.normpath form (the table is a public dict, the writer emits keys
# verbatim), including groups that normalise to the same string: every one must survive as a key of its own
NONNORMAL_PATHS = ["./repodata/repomd.xml", "images//pxeboot/vmlinuz", "a/./b", "a/b", "a//b", "a/b/", "images/dir/", "a/../b", "b", "./b",
                   "x/.", "x", "../up/file", "./", "c/d/../../e", "e"]
# boundary values for every free-text field: all single-line without outer blanks, hence representable in the file syntax
# (comment prefixes after a blank, delimiters, brackets, interpolation syntax, trailing backslash, inner tab / no-break space, long)
BOUNDARY_VALUES = ["Fedora ;Server", "a #b", "a ; b", "a;b", "a ;", "; lead", "# lead", "x = y", "x: y", "[x]", "%(a)s", "%%", "100%",
                   "trailing\\", "tab\tinside", "nb\u00a0sp", "a  b", "images/boot ;1.iso", "L" + "o" * 3000 + "ng", "=", ":", "]x["]
BOUNDARY_NAMES = ["a b", "k;x", "k#x", "a ;b", "a #b", "x y.img", "UP low", "k%", "nb\u00a0sp", "t\tab", "n" * 300]


def uniq(xs):
    return list(dict.fromkeys(xs))


def bval(rng, normal, rate=0.15, exclude=""):
    """a value from the normal pool, or (with probability `rate`) a boundary value free of the characters in `exclude`"""
    if rng.random() < rate:
        pool = [v for v in BOUNDARY_VALUES if not any(c in v for c in exclude)]
        return rng.choice(pool)
    return rng.choice(normal) if isinstance(normal, list) else normal


TS_POOL = [1, 123456, -5, 2 ** 40, 2 ** 53, -(2 ** 53), 1417653911, 2 ** 31, 2 ** 32 + 1, 7]


def gen_variant(rng, vid, uid, typ, arch, depth, maxdepth, used):
    fields = rng.sample(PATH_FIELDS, rng.choice([0, 1, 2, 3, 4, 7]))
    if arch == "src" and rng.random() < 0.6:
        fields = [f for f in fields if f.startswith("source_")] or ["source_packages", "source_repository"]
    v = {"key": vid, "id": vid, "uid": uid, "name": bval(rng, [vid, "Name of %s" % vid, "n", "High Availability"]), "type": typ,
         "paths": [[f, bval(rng, PATH_VALUES)] for f in PATH_FIELDS if f in fields], "variants": []}
    if depth < maxdepth:
        for cid in rng.sample(KID_IDS, rng.choice([0, 0, 1, 2, 3])):
            cuid = uid + "-" + cid
            if cuid in used:
                continue
            used.add(cuid)
            ctype = rng.choice(["addon", "variant", "optional"])
            v["variants"].append(gen_variant(rng, cid, cuid, ctype, arch, depth + 1, maxdepth, used))
        rng.shuffle(v["variants"])
    return v


def gen(rng, tier="quick", float_ts=False, dashed_by_id=0.0):
    """a valid tree per the quantifier of C04 / C17 -> (spec, main_variant)"""
    arch = "src" if rng.random() < 0.25 else rng.choice(ARCHES)
    layered = rng.random() < 0.3
    version = rng.choice(VERSIONS)
    spec = {"header_version": "0.0",
            "release": {"name": bval(rng, NAMES), "short": bval(rng, SHORTS), "version": version},
            "is_layered": layered,
            "base_product": {"name": bval(rng, NAMES), "short": bval(rng, ["B", "BP"]), "version": rng.choice(["7", "Beta", "21.1", "Beta ;2"])}
            if (layered or rng.random() < 0.1) else None}
    plats = set(rng.sample(PLATFORMS, rng.randint(0, 3)))
    if rng.random() < 0.7:
        plats.add(arch)
    if float_ts:
        ts = rng.choice([1.5, 1417653911.25, 123456.0, -2.75, 1e15 + 0.5, 4.0e18, struct.unpack("<d", struct.pack("<Q", rng.getrandbits(64)))[0]])
        if ts != ts or ts in (float("inf"), float("-inf")) or ts == 0:
            ts = 1417653911.75
        ts = ts_spec(ts)
    else:
        ts = rng.choice(TS_POOL + [rng.randint(-10 ** 6, 2 ** 53)])
        if ts == 0:
            ts = 1
    tops, used = [], set()
    maxdepth = 3 if tier != "quick" or rng.random() < 0.3 else 2
    ids = rng.sample(TOP_IDS, rng.randint(1, 3))
    for vid in ids:
        used.add(vid)
        tops.append(gen_variant(rng, vid, vid, rng.choice(["variant", "variant", "optional"]), arch, 1, maxdepth, used))
    if rng.random() < 0.35:
        # a top-level variant whose UID differs from its id ("Server-optional"): filed under its UID, which is what
        # the reader itself does (`add(v, variant_id=v.uid)`); with probability `dashed_by_id` filed under the id (F8)
        base = rng.choice(ids)
        kind = rng.choice(["optional", "variant"])
        vid = "optional" if kind == "optional" else base + "optional"
        uid = base + "-optional"
        if uid not in used:
            used.add(uid)
            v = gen_variant(rng, vid, uid, kind, arch, 1, maxdepth, used)
            v["key"] = vid if rng.random() < dashed_by_id else uid
            tops.append(v)
    rng.shuffle(tops)
    images = []
    for p in sorted(plats):
        if rng.random() < 0.6:
            names = rng.sample(uniq(IMAGE_NAMES + (BOUNDARY_NAMES if rng.random() < 0.3 else [])), rng.randint(0, 4))
            images.append([p, [[k, bval(rng, "images/%s/%s" % (p, k))] for k in names]])
    rng.shuffle(images)
    checks = []
    for p in rng.sample(uniq(CHECKSUM_PATHS + (BOUNDARY_NAMES if rng.random() < 0.3 else []) + (NONNORMAL_PATHS if rng.random() < 0.35 else [])),
                        rng.choice([0, 0, 1, 2, 3, 4])):
        checks.append([p, bval(rng, ["sha256", "md5", "sha1", "sha512", "SHA256"], rate=0.05, exclude=":"),
                       bval(rng, "%x" % rng.getrandbits(rng.choice([64, 128, 160, 256])), exclude=":")])
    stage2 = {"mainimage": bval(rng, "LiveOS/squashfs.img") if rng.random() < 0.5 else rng.choice([None, None, ""]),
              "instimage": bval(rng, "images/install.img") if rng.random() < 0.2 else None}
    media = {"discnum": None, "totaldiscs": None}
    if rng.random() < 0.4:
        tot = rng.randint(1, 4)
        media = {"discnum": rng.randint(1, tot), "totaldiscs": tot}
        if rng.random() < 0.2:
            media = {"discnum": rng.randint(0, 9), "totaldiscs": rng.randint(1, 9)}
    spec.update({"tree": {"arch": arch, "build_timestamp": ts, "platforms": sorted(plats)}, "variants": tops, "checksums": checks,
                 "images": images, "stage2": stage2, "media": media})
    keys = [v["key"] for v in tops]
    mv = rng.choice([None] + keys) if rng.random() < 0.7 else None
    return spec, mv
