"""
Shared real-side adapter for images manifests (productmd/images.py) - used by C02 and C09, meant for reuse by
C05/C06/C07/C08/C10/C18.

A *spec* is a JSON-able description of a manifest and of the way it is built through the public API:

    {"version":  "0.0" | "1.0" | "1.1" | "1.2" | ...   header.version set on the fresh Images() BEFORE the adds
                                                        ("0.0" is what a fresh object carries; Images.add enforces
                                                        identity uniqueness only for >= 1.1 -- finding F11)
     "compose":  {"id", "type", "date", "respin", "label", "final"},
     "pool":     [ {15 attributes}, ... ]               image OBJECTS; the index is the object's identity
     "adds":     [ [variant, arch, pool index], ... ]   Images.add calls in this order; an index may occur in several
                                                        cells (the same object filed several times)
     "edits":    [ ["discard", v, a, idx] | ["clear", v, a] | ["del_variant", v] | ["del_arch", v, a] | ["add", v, a, idx], ... ]   (optional)
                                                        applied after the adds through the public containers
                                                        (images[v][a].discard(obj) / .clear(), del images[v], del images[v][a], add):
                                                        buckets may end up EMPTY (an empty set, a variant without arches)}

    gen(rng, tier, **opts) -> spec           mostly-valid manifests per the quantifier of C02
    gen_image(rng, k, ...) -> dict           one image (15 attributes), k-th of the round-robin over type x format
    build(spec) -> (Images, [Image])         through Image()/setattr/Images.add only
    snap(images_obj) -> dict                 canonical snapshot {"version", "compose", "images": {v: {a: [records]}}}
    expected_snapshot(spec) -> dict          what the spec says the manifest contains (oracle side, no library code)
    model_state(spec) -> dict                the state encoding of the Lean driver ops (Driver/OpsImages.lean)
    identity7(record) -> tuple               the seven-attribute identity written out independently of the library
    uniq_violations(records) -> list         pairs with equal identity and different checksums
    enc(v) / dec(v)                          Python value <-> driver protocol (floats as {"$float": repr})

Every random choice comes from the `rng` argument.
"""
import copy, json
import checklib

FIELDS = ["path", "mtime", "size", "volume_id", "type", "format", "arch", "disc_number", "disc_count", "checksums",
          "implant_md5", "bootable", "subvariant", "unified", "additional_variants"]
INT_FIELDS = ["mtime", "size", "disc_number", "disc_count"]
COMPOSE_FIELDS = ["id", "type", "date", "respin", "label", "final"]
IDENTITY7 = ["subvariant", "type", "format", "arch", "disc_number", "unified", "additional_variants"]

VARIANTS = ["Server", "Client", "Workstation", "Server-optional", "Everything", "Cloud_Base", "AtomicHost", "x"]
SUBVARIANTS = ["", "Server", "KDE", "LXDE", "Cloud_Base", "Atomic Host", u"Spécial"]
PATH_STEMS = ["a", "B", "0", "z_", "Z", "10", "9", "b", "A-", "a.", u"é", u"\U0001F4BF", "_", "~"]
BIG_SIZES = [2 ** 32 + 7, 2 ** 40, 2 ** 53 + 1, 2 ** 60 + 1, 2 ** 64 + 3, 2 ** 31, 2 ** 32 - 1, 2 ** 32]
MTIMES = [0, 1, 1432310400, 2 ** 31 + 5, 2 ** 33, -1]
COMPOSE_TYPES_SUFFIX = {"production": "", "nightly": ".n", "test": ".t", "ci": ".ci", "development": ".d"}


# ---- wide pools (docs/GENERATOR_AUDIT.md): legal values the narrow pools never produce; used with wide=True only, so that
# checks that have not been audited for them keep their behaviour
LONG = "L" * 310
W_PATH_STEMS = [" ", " lead", "trail ", "in ner", "\t", u"\u00a0", "a-b.c:d@e,f;g=h#i%j[k]l\"m'n\\o", "%%", "//x", "x/", "./x", "../x", "x/../x",
                "Server/x86_64/Server/x86_64", "None", "null", "0", "False", "1.0", u"\u0663", u"\uff17", LONG, "iso", "ISO", "Iso"]
W_VOLUME_IDS = ["-", ".", ":", "a=b", "#c", "%s", "[x]", "\"q\"", "'q'", "\\", "%%", "\t", u"\u00a0", " lead", "trail ", "None", "null", "0", "False", "1.0",
                u"\u0663\uff17", u"\U0001F4BF", LONG]
W_SUBVARIANTS = [" ", "kde", "Kde", "KDE ", "K-D.E", "a:b/c@d", "None", "0", "False", u"\u0663", u"\U0001F4BF", LONG, "\t", u"\u00a0"]
W_VARIANTS = ["server", "SERVER", "", " ", "A.B", "a/b", "a:b", u"Sérv", u"\U0001F4BF", "None", "0", "Server-Server", LONG, "src", "x86_64"]
W_INTS = [0, 1, -1, 2 ** 31, 2 ** 32 + 7, 2 ** 53 + 1, 2 ** 63 - 1, 2 ** 63, 10 ** 7, 10 ** 8, 10 ** 7 - 1, 10 ** 8 + 1, 10, 3, -2 ** 40]
W_ARCH_ATTR = ["ppc", "ppc64", "ppc64le", "nosrc", "foo", "X86_64", " ", u"\u0663", "x86_64 ", "None", LONG]
W_ADDITIONAL = [[""], ["B", "A"], ["A", "A"], [" "], ["a-b", "a.b"], [u"\u0663"], [LONG], ["Server", "server"], [1, None, True], [["nested"], {"k": "v"}],
                ["None"], ["A", "B", "C", "D", "E", "F", "G", "H"]]
W_CHECKSUMS = [{"md5": "x", "MD5": "y"}, {"SHA256": "AbC"}, {"": ""}, {"sha256": ""}, {"md5": None}, {"md5": 1, "sha1": True, "sha256": False},
               {"md5": ["l"], "x": {"n": "d"}}, {"a-b.c:d": "v"}, {u"\u0663": u"\uff17"}, {"z": "1", "a": "2", "M": "3"}, {"md5": LONG},
               {"sha256": {"$float": "0.5"}}, {"md5": "None", "sha1": "0"}, {"md5": " "}]
W_IMPLANT = ["z" * 32, "0" * 32, "a1" * 16 + "\n", "0123456789abcdefghijklmnopqrstuv"]
W_VERSIONS = ["1.10", "01.1", "1.2\n", "10.0", "0.3", "0.11", "1.01"]
PREFIX_ARCHES = ["ppc", "ppc64", "ppc64le", "ppc64iseries", "ppc64pseries", "ppc64p7", "sparc", "sparc64", "sparc64v", "sparcv9", "sparcv9v",
                 "arm64", "armv7hl", "armv7hnl", "i386", "i686", "s390", "s390x", "mips", "mips64", "mips64el", "mipsel", "noarch"]
_RR = {"n": 0}


def rr(pool):
    """round-robin over a pool across the whole run (every value is used, not sampled)"""
    _RR["n"] += 1
    return pool[_RR["n"] % len(pool)]


def widen_image(rng, img, t):
    """replace some attributes of a (valid) image by legal values of the wide pools; one or two attributes per image,
    chosen round-robin so that every class is produced in every run"""
    for _ in range(rng.choice([1, 1, 2])):
        k = rr(["path", "volume_id", "subvariant", "mtime", "size", "disc", "arch", "typeformat", "checksums", "implant_md5", "additional", "unified_empty"])
        if k == "path":
            img["path"] = "%s/%s" % (rr(W_PATH_STEMS), img["path"]) if rng.random() < 0.5 else "%s%s" % (img["path"], rr(W_PATH_STEMS))
        elif k == "volume_id":
            img["volume_id"] = rr(W_VOLUME_IDS)
        elif k == "subvariant":
            img["subvariant"] = rr(W_SUBVARIANTS)
        elif k == "mtime":
            img["mtime"] = rr(W_INTS)
        elif k == "size":
            img["size"] = rr([x for x in W_INTS if x != 0])
        elif k == "disc":                                     # decoupled: count below number, 1 of 3, zero, negative
            img["disc_number"], img["disc_count"] = rr([(1, 3), (3, 1), (0, 0), (10, 12), (-1, 1), (2, 2), (10 ** 7, 1), (1, 0), (2 ** 53 + 1, 2 ** 63 - 1), (2 ** 64 + 3, 2 ** 53 + 1), (1, 2 ** 60 + 1)])
        elif k == "arch":
            img["arch"] = rr(W_ARCH_ATTR)
        elif k == "typeformat":                                # type and format are validated independently: decouple them
            img["type"] = rr([x[0] for x in t["tf"]]); img["format"] = rr(sorted(set(x[1] for x in t["tf"])))
        elif k == "checksums":
            img["checksums"] = copy.deepcopy(rr(W_CHECKSUMS))
        elif k == "implant_md5":
            img["implant_md5"] = rr(W_IMPLANT)
        elif k == "additional":
            img["unified"] = True; img["additional_variants"] = copy.deepcopy(rr(W_ADDITIONAL))
        elif k == "unified_empty":
            img["unified"] = True; img["additional_variants"] = []
    return img


def widen_compose(rng, c):
    k = rr(["id", "respin", "date", "decouple", "label", "none"])
    if k == "id":
        c["id"] = rr([u"Fédora 22-%s" % c["date"], " %s " % c["date"], "x" + c["date"] + ".n.0.extra", LONG + c["date"], c["date"], u"\u0663%s" % c["date"],
                      "a-b.c:d@" + c["date"], u"F-\uff12\uff10\uff11\uff15\uff10\uff15\uff12\uff12"])
    elif k == "respin":
        c["respin"] = rr([10, 2 ** 53 + 1, -1, 10 ** 7, 10 ** 8, 2 ** 63 - 1])
    elif k == "date":
        c["date"] = rr([u"\uff12\uff10\uff11\uff15\uff10\uff15\uff12\uff12", "00000000", "99999999", "20150522\n"])
    elif k == "decouple":                                      # type field vs id suffix are independent
        c["type"] = rr(["production", "nightly", "test", "ci", "development"])
    elif k == "label":
        c["label"] = rr(["RC-10.10", "EA-0.0", "SecurityFix-1.0", u"Update-\uff11.\uff12", "Beta-1.2\n"]); c["final"] = rr([True, False])
    return c


def lib():
    checklib.use_repo()
    import productmd.images, productmd.common, productmd.composeinfo
    return productmd.images


def tables():
    im = lib()
    import productmd.common, productmd.composeinfo
    tf = []
    formats = list(im.SUPPORTED_IMAGE_FORMATS)
    for i, (t, fs) in enumerate(sorted(im.IMAGE_TYPE_FORMAT_MAPPING.items())):
        for f in (fs or [formats[i % len(formats)]]):          # types without a format of their own: any supported format
            tf.append((t, f))
    arches = [a for a in productmd.common.RPM_ARCHES if a not in ("src", "nosrc")]
    return {"tf": tf, "arches": arches, "all_arches": list(productmd.common.RPM_ARCHES),
            "compose_types": list(productmd.composeinfo.COMPOSE_TYPES), "labels": list(productmd.composeinfo.LABEL_NAMES)}


# ------------------------------------------------------------------------------------------------ protocol encoding
def enc(v):
    """python value -> driver protocol JSON"""
    if isinstance(v, float):
        return {"$float": repr(v)}
    if isinstance(v, dict):
        return dict((k, enc(x)) for k, x in v.items())
    if isinstance(v, list):
        return [enc(x) for x in v]
    if v is None or isinstance(v, (bool, int, str)):
        return v
    return {"$other": bool(v)}


def dec(v):
    """driver protocol JSON -> python value ({"$other": truthy} becomes a set: a value json.dump refuses)"""
    if isinstance(v, dict):
        if list(v.keys()) == ["$float"]:
            return float(v["$float"])
        if list(v.keys()) == ["$other"]:
            return set([1]) if v["$other"] else set()
        return dict((k, dec(x)) for k, x in v.items())
    if isinstance(v, list):
        return [dec(x) for x in v]
    return v


# ------------------------------------------------------------------------------------------------ generators
def gen_compose(rng, t=None):
    t = t or tables()
    ctype = rng.choice(t["compose_types"])
    date = "%04d%02d%02d" % (rng.randint(1999, 2030), rng.randint(1, 12), rng.randint(1, 28))
    respin = rng.choice([0, 1, 2, 15])
    cid = "%s-%s-%s%s.%d" % (rng.choice(["Fedora", "RHEL", "F", "Supp-lement"]), rng.choice(["22", "7.1", "Rawhide"]), date,
                            COMPOSE_TYPES_SUFFIX.get(ctype, ""), respin)
    label, final = None, False
    r = rng.random()
    if r < 0.45:
        label = "%s-%d.%d" % (rng.choice(t["labels"]), rng.randint(0, 12), rng.randint(0, 9))
        final = rng.random() < 0.5
    elif r < 0.55:
        final = True                                    # final without a label: dropped by the writer (documented)
    return {"id": cid, "type": ctype, "date": date, "respin": respin, "label": label, "final": final}


def gen_checksums(rng, k):
    kinds = rng.sample(["md5", "sha1", "sha256"], rng.randint(1, 3))
    w = {"md5": 32, "sha1": 40, "sha256": 64}
    return dict((c, ("%x" % (rng.getrandbits(64) * 7919 + k)).rjust(w[c], "0")[:w[c]]) for c in kinds)


def gen_image(rng, k, variant="Server", arch="x86_64", t=None, stem=None):
    """k-th image of a manifest: type x format round-robin so that every enumeration value is used"""
    t = t or tables()
    ty, fmt = t["tf"][k % len(t["tf"])]
    unified = rng.random() < 0.3
    stem = stem if stem is not None else rng.choice(PATH_STEMS)
    return {
        "path": "%s/%s/%s/%s%d.%s" % (variant, arch, rng.choice(["iso", "images", "os"]), stem, k, fmt),
        "mtime": rng.choice(MTIMES),
        "size": rng.choice(BIG_SIZES + [1, 2, 700 * 2 ** 20]),
        "volume_id": rng.choice([None, None, "vol %d" % k, u"Völ-%d" % k, " "]),
        "type": ty, "format": fmt,
        "arch": rng.choice([arch, arch, "src", "noarch"]),
        "disc_number": rng.choice([1, 1, 2, k + 1, 0]),
        "disc_count": rng.choice([1, 2, k + 1]),
        "checksums": gen_checksums(rng, k),
        "implant_md5": rng.choice([None, "%032x" % rng.getrandbits(128)]),
        "bootable": rng.random() < 0.5,
        "subvariant": rng.choice(SUBVARIANTS),
        "unified": unified,
        "additional_variants": (rng.sample(["Client", "Workstation", "Server-optional", "A"], rng.randint(0, 3)) if unified else []),
    }


def make_unique(pool):
    """change disc_number where needed so that no two pool images of equal identity have different checksums"""
    seen = {}
    for img in pool:
        while True:
            key = json.dumps(identity7(img), sort_keys=True)
            if key not in seen or seen[key] == img["checksums"]:
                seen[key] = img["checksums"]
                break
            img["disc_number"] += 100
            img["disc_count"] = max(img["disc_count"], img["disc_number"])
    return pool


def gen(rng, tier="quick", version=None, unique=True, max_variants=3, max_arches=3, max_cell=6, share=True, k0=None, wide=False):
    """a mostly-valid manifest per the quantifier of C02; wide=True: also the legal values of the wide pools
    (generator audit): odd variant keys, arch keys that are prefixes of each other, decoupled attributes, …"""
    t = tables()
    k = rng.randrange(len(t["tf"])) if k0 is None else k0
    pool, adds = [], []
    variants = rng.sample(VARIANTS, rng.randint(1, max_variants))
    if wide and rng.random() < 0.5:
        variants = list(dict.fromkeys(variants + [rr(W_VARIANTS), rr(W_VARIANTS)]))
    for v in variants:
        arches = rng.sample(t["arches"], rng.randint(1, max_arches))
        if wide and rng.random() < 0.3:
            i = _RR["n"] % (len(PREFIX_ARCHES) - 2); _RR["n"] += 1
            arches = PREFIX_ARCHES[i:i + 3]                     # table entries that are prefixes / extensions of each other, and the last one
        if rng.random() < 0.5:
            arches[0] = rng.choice(["x86_64", "i386", "ppc64le", "noarch", "aarch64"])
        for a in dict.fromkeys(arches):
            n = rng.choice([0, 1, 1, 2, 3, max_cell])
            stems = list(PATH_STEMS); rng.shuffle(stems)
            for j in range(n):
                pool.append(gen_image(rng, k, v, a, t, stem=stems[j % len(stems)])); k += 1
                if wide and rng.random() < 0.5:
                    widen_image(rng, pool[-1], t)
                adds.append([v, a, len(pool) - 1])
    if pool and rng.random() < 0.35:
        # the same content under another path: equal identity AND equal checksums is allowed
        src = rng.randrange(len(pool))
        twin = copy.deepcopy(pool[src]); twin["path"] = "twin/" + twin["path"]; twin["bootable"] = not twin["bootable"]
        pool.append(twin)
        adds.append([rng.choice(variants), rng.choice(t["arches"]), len(pool) - 1])
    if unique:
        make_unique(pool)
    if share and pool:
        for _ in range(rng.choice([0, 0, 1, 2, 3])):
            # the same OBJECT filed under further variants/arches (and once more into a cell it is already in)
            idx = rng.randrange(len(pool))
            v, a = rng.choice(variants + ["Shared"]), rng.choice(["x86_64", "s390x", "armhfp"] + t["arches"][:3])
            if all(not (x[0] == v and x[1] == a and pool[x[2]]["path"] == pool[idx]["path"] and x[2] != idx) for x in adds):
                adds.append([v, a, idx])
        if rng.random() < 0.2:
            adds.append(list(adds[rng.randrange(len(adds))]))
    rng.shuffle(adds)
    if version is None:
        version = rng.choice(["0.0", "0.0", "1.2", "1.1", "1.0", "2.0"])
        if wide and rng.random() < 0.15:
            version = rr(W_VERSIONS)
    comp = gen_compose(rng, t)
    if wide and rng.random() < 0.4:
        widen_compose(rng, comp)
    if wide:
        # distinct paths inside every cell (the quantifier's condition) also after widening
        seen = {}
        for v, a, idx in adds:
            key = (v, a, pool[idx]["path"])
            if seen.setdefault(key, idx) != idx:
                pool[idx]["path"] += ".%d" % idx
    return {"version": version, "compose": comp, "pool": pool, "adds": adds}


# ------------------------------------------------------------------------------------------------ real side
def new_image(im, parent, attrs, style="assign"):
    """style "assign": every attribute assigned (fresh containers); "inplace": the default containers of the new object are
    filled in place (add_checksum, additional_variants.append) - same attributes, other construction"""
    obj = im.Image(parent)
    for f, val in attrs.items():
        val = dec(copy.deepcopy(val))                     # spec values are in protocol encoding ($float / $other markers)
        if style == "inplace" and f == "checksums" and isinstance(val, dict):
            for k, x in val.items():
                obj.add_checksum(None, k, x)
        elif style == "inplace" and f == "additional_variants" and isinstance(val, list):
            for x in val:
                obj.additional_variants.append(x)
        else:
            setattr(obj, f, val)
    return obj


def build(spec, strict=True):
    """-> (Images, [Image objects of the pool]); through the public API only.  strict=False: a refused add is skipped"""
    im = lib()
    m = im.Images()
    if spec.get("version") is not None:
        m.header.version = spec["version"]
    for f, val in spec.get("compose", {}).items():
        setattr(m.compose, f, copy.deepcopy(val))
    styles = spec.get("styles") or []
    objs = [new_image(im, m, attrs, styles[i] if i < len(styles) else "assign") for i, attrs in enumerate(spec["pool"])]
    for v, a, idx in spec["adds"]:
        try:
            m.add(v, a, objs[idx])
        except ValueError:
            if strict:
                raise
    for e in spec.get("edits", ()):
        if e[0] == "discard":
            m[e[1]][e[2]].discard(objs[e[3]])
        elif e[0] == "clear":
            m[e[1]][e[2]].clear()
        elif e[0] == "del_variant":
            del m[e[1]]
        elif e[0] == "del_arch":
            del m[e[1]][e[2]]
        elif e[0] == "add":
            try:
                m.add(e[1], e[2], objs[e[3]])
            except ValueError:
                if strict:
                    raise
    return m, objs


def record(obj):
    return dict((f, copy.deepcopy(getattr(obj, f))) for f in FIELDS)


def rec_key(r):
    return json.dumps(checklib.canon(r), sort_keys=True)


def snap_cells(images_dict):
    return dict((v, dict((a, sorted((record(o) for o in cell), key=rec_key)) for a, cell in d.items())) for v, d in images_dict.items())


def snap(m):
    return {"version": m.header.version, "compose": dict((f, getattr(m.compose, f)) for f in COMPOSE_FIELDS),
            "images": snap_cells(m.images)}


def cells_of_adds(pool, adds, edits=()):
    """{variant: {arch: [pool indices in insertion order, each once]}} - what Images.add and the edits build;
    empty buckets are kept (an emptied set stays in the dict)"""
    cells = {}
    def add(v, a, idx):
        c = cells.setdefault(v, {}).setdefault(a, [])
        if idx not in c:
            c.append(idx)
    for v, a, idx in adds:
        add(v, a, idx)
    for e in edits:
        if e[0] == "discard":
            if e[3] in cells[e[1]][e[2]]:
                cells[e[1]][e[2]].remove(e[3])
        elif e[0] == "clear":
            del cells[e[1]][e[2]][:]
        elif e[0] == "del_variant":
            del cells[e[1]]
        elif e[0] == "del_arch":
            del cells[e[1]][e[2]]
        elif e[0] == "add":
            add(e[1], e[2], e[3])
    return cells


def valid_edits(pool, adds, edits):
    """the edits that can still be applied (used when a spec is shrunk)"""
    out = []
    for e in edits:
        try:
            cells_of_adds(pool, adds, out + [e])
            out.append(e)
        except (KeyError, IndexError):
            pass
    return out


def cells_of_spec(spec):
    return cells_of_adds(spec["pool"], spec["adds"], spec.get("edits", ()))


def gen_edits(rng, spec, n=None):
    """edits through the public containers, valid for the spec (tracked on the emulated cells): removing single
    images, ALL images of a cell, whole variants, and re-adding"""
    edits = []
    for _ in range(rng.randint(1, 4) if n is None else n):
        cells = cells_of_adds(spec["pool"], spec["adds"], edits)
        buckets = [(v, a) for v, d in cells.items() for a in d]
        r = rng.random()
        if buckets and r < 0.45:
            v, a = rng.choice(buckets)
            c = cells[v][a]
            if c and rng.random() < 0.6:
                for idx in (list(c) if rng.random() < 0.5 else [rng.choice(c)]):       # all images of the cell, or one
                    edits.append(["discard", v, a, idx])
            else:
                edits.append(["clear", v, a])
        elif cells and r < 0.55:
            edits.append(["del_variant", rng.choice(list(cells))])
        elif buckets and r < 0.65:
            edits.append(["del_arch"] + list(rng.choice(buckets)))       # may leave a variant without arches
        elif spec["pool"]:
            idx = rng.randrange(len(spec["pool"]))
            v, a = rng.choice(buckets) if buckets and rng.random() < 0.7 else (rng.choice(VARIANTS), "x86_64")
            if all(not (spec["pool"][i]["path"] == spec["pool"][idx]["path"] and i != idx) for i in cells.get(v, {}).get(a, [])):
                edits.append(["add", v, a, idx])
    return edits


def expected_snapshot(spec, keep_empty=False):
    """the records per (variant, arch) the spec describes; empty buckets are dropped unless keep_empty (a written and
    re-read manifest has no empty bucket: the writer emits nothing for them)"""
    cells = cells_of_spec(spec)
    if not keep_empty:
        cells = dict((v, dict((a, c) for a, c in d.items() if c)) for v, d in cells.items())
        cells = dict((v, d) for v, d in cells.items() if d)
    return dict((v, dict((a, sorted((dec(copy.deepcopy(spec["pool"][i])) for i in c), key=rec_key)) for a, c in d.items())) for v, d in cells.items())


def model_state(spec, version=None):
    cells = cells_of_spec(spec)
    return {"version": spec["version"] if version is None else version, "compose": enc(spec["compose"]),
            "cells": [[v, [[a, [[i, enc(spec["pool"][i])] for i in c]] for a, c in d.items()]] for v, d in cells.items()]}


def snap_of_model_state(st):
    """canonical snapshot of a state returned by the driver"""
    return {"version": dec(st["version"]), "compose": dec(st["compose"]),
            "images": dict((v, dict((a, sorted((dec(img) for _, img in cell), key=rec_key)) for a, cell in archs)) for v, archs in st["cells"])}


# ------------------------------------------------------------------------------------------------ spec-side identity (no library code)
def identity7(r):
    get = r.get if isinstance(r, dict) else (lambda k, d=None: getattr(r, k, d))
    return (get("subvariant"), get("type"), get("format"), get("arch"), get("disc_number"),
            get("unified") or False, get("additional_variants") or [])


def uniq_violations(records):
    out = []
    for i, a in enumerate(records):
        for b in records[i + 1:]:
            if identity7(a) == identity7(b) and a["checksums"] != b["checksums"]:
                out.append([a["path"], b["path"]])
    return out


def version_pair(v):
    try:
        a, b = v.strip().split(".")
        return (int(a), int(b))
    except Exception:
        return None


def doc_of_spec(spec, version="1.2", keep_defaults=False):
    """the document a writer of format `version` would produce for the spec, written out without library code
    (used to make documents with injected collisions / older headers); keep_defaults: also write unified /
    additional_variants when not unified (the reader accepts both spellings)"""
    cells = cells_of_spec(spec)
    images = {}
    for v, d in cells.items():
        for a, c in d.items():
            recs = []
            for i in c:
                r = copy.deepcopy(spec["pool"][i])
                if not r.get("unified") and not keep_defaults:
                    r.pop("unified", None); r.pop("additional_variants", None)
                recs.append(r)
            if recs:                                       # the writer emits nothing for an empty bucket
                images.setdefault(v, {})[a] = sorted(recs, key=lambda r: r["path"])
    comp = dict((k, spec["compose"][k]) for k in ("id", "type", "date", "respin"))
    if spec["compose"].get("label"):
        comp["label"] = spec["compose"]["label"]; comp["final"] = spec["compose"]["final"]
    return {"header": {"type": "productmd.images", "version": version}, "payload": {"compose": comp, "images": images}}


def doc_records(doc):
    """all image dicts of a document with the reader's defaults applied (spec side)"""
    out = []
    for v, d in doc["payload"]["images"].items():
        for a, cell in d.items():
            for r in cell:
                out.append(read_record(r))
    return out


def read_record(r):
    """what the reader makes of an image dictionary, written out on the spec side: documented defaults (format iso,
    subvariant "", unified False, additional_variants []), int() of the four integer attributes, bool() of bootable"""
    r = dict(r)
    r.setdefault("format", "iso"); r.setdefault("subvariant", ""); r.setdefault("unified", False); r.setdefault("additional_variants", [])
    for f in INT_FIELDS:
        if isinstance(r.get(f), (int, float, str)) and not isinstance(r.get(f), bool):
            try:
                r[f] = int(r[f])
            except ValueError:
                pass
        elif isinstance(r.get(f), bool):
            r[f] = int(r[f])
    r["bootable"] = bool(r.get("bootable"))
    return r
