"""
Shared real-side adapter for images manifests (productmd/images.py) - used by C02 and C09, meant for reuse by
C05/C06/C07/C08/C10/C18.

A *spec* is a JSON-able description of a manifest and of the way it is built through the public API:

    {"version":  "0.0" | "1.0" | "1.1" | "1.2" | ...   header.version set on the fresh Images() BEFORE the adds
                                                        ("0.0" is what a fresh object carries; Images.add enforces
                                                        identity uniqueness only for >= 1.1 -- finding F11)
     "compose":  {"id", "type", "date", "respin", "label", "final"},
     "pool":     [ {15 attributes}, ... ]               image OBJECTS; the index is the object's identity
     "adds":     [ [variant, arch, pool index], ... ]   Images.add calls in this order; an index may occur in several
                                                        cells (the same object filed several times)
     "edits":    [ ["discard", v, a, idx] | ["clear", v, a] | ["del_variant", v] | ["del_arch", v, a] | ["add", v, a, idx], ... ]   (optional)
                                                        applied after the adds through the public containers
                                                        (images[v][a].discard(obj) / .clear(), del images[v], del images[v][a], add):
                                                        buckets may end up EMPTY (an empty set, a variant without arches)}

    gen(rng, tier, **opts) -> spec           mostly-valid manifests per the quantifier of C02
    gen_image(rng, k, ...) -> dict           one image (15 attributes), k-th of the round-robin over type x format
    build(spec) -> (Images, [Image])         through Image()/setattr/Images.add only
    snap(images_obj) -> dict                 canonical snapshot {"version", "compose", "images": {v: {a: [records]}}}
    expected_snapshot(spec) -> dict          what the spec says the manifest contains (oracle side, no library code)
    model_state(spec) -> dict                the state encoding of the Lean driver ops (Driver/OpsImages.lean)
    identity7(record) -> tuple               the seven-attribute identity written out independently of the library
    uniq_violations(records) -> list         pairs with equal identity and different checksums
    enc(v) / dec(v)                          Python value <-> driver protocol (floats as {"$float": repr})

Every random choice comes from the `rng` argument.
"""
import copy, json
import checklib

FIELDS = ["path", "mtime", "size", "volume_id", "type", "format", "arch", "disc_number", "disc_count", "checksums",
          "implant_md5", "bootable", "subvariant", "unified", "additional_variants"]
INT_FIELDS = ["mtime", "size", "disc_number", "disc_count"]
COMPOSE_FIELDS = ["id", "type", "date", "respin", "label", "final"]
IDENTITY7 = ["subvariant", "type", "format", "arch", "disc_number", "unified", "additional_variants"]

VARIANTS = ["Server", "Client", "Workstation", "Server-optional", "Everything", "Cloud_Base", "AtomicHost", "x"]
SUBVARIANTS = ["", "Server", "KDE", "LXDE", "Cloud_Base", "Atomic Host", u"Spécial"]
PATH_STEMS = ["a", "B", "0", "z_", "Z", "10", "9", "b", "A-", "a.", u"é", u"\U0001F4BF", "_", "~"]
BIG_SIZES = [2 ** 32 + 7, 2 ** 40, 2 ** 53 + 1, 2 ** 60 + 1, 2 ** 64 + 3, 2 ** 31, 2 ** 32 - 1, 2 ** 32]
MTIMES = [0, 1, 1432310400, 2 ** 31 + 5, 2 ** 33, -1]
COMPOSE_TYPES_SUFFIX = {"production": "", "nightly": ".n", "test": ".t", "ci": ".ci", "development": ".d"}


def lib():
    checklib.use_repo()
    import productmd.images, productmd.common, productmd.composeinfo
    return productmd.images


def tables():
    im = lib()
    import productmd.common, productmd.composeinfo
    tf = []
    formats = list(im.SUPPORTED_IMAGE_FORMATS)
    for i, (t, fs) in enumerate(sorted(im.IMAGE_TYPE_FORMAT_MAPPING.items())):
        for f in (fs or [formats[i % len(formats)]]):          # types without a format of their own: any supported format
            tf.append((t, f))
    arches = [a for a in productmd.common.RPM_ARCHES if a not in ("src", "nosrc")]
    return {"tf": tf, "arches": arches, "all_arches": list(productmd.common.RPM_ARCHES),
            "compose_types": list(productmd.composeinfo.COMPOSE_TYPES), "labels": list(productmd.composeinfo.LABEL_NAMES)}


# ------------------------------------------------------------------------------------------------ protocol encoding
def enc(v):
    """python value -> driver protocol JSON"""
    if isinstance(v, float):
        return {"$float": repr(v)}
    if isinstance(v, dict):
        return dict((k, enc(x)) for k, x in v.items())
    if isinstance(v, list):
        return [enc(x) for x in v]
    if v is None or isinstance(v, (bool, int, str)):
        return v
    return {"$other": bool(v)}


def dec(v):
    """driver protocol JSON -> python value ({"$other": truthy} becomes a set: a value json.dump refuses)"""
    if isinstance(v, dict):
        if list(v.keys()) == ["$float"]:
            return float(v["$float"])
        if list(v.keys()) == ["$other"]:
            return set([1]) if v["$other"] else set()
        return dict((k, dec(x)) for k, x in v.items())
    if isinstance(v, list):
        return [dec(x) for x in v]
    return v


# ------------------------------------------------------------------------------------------------ generators
def gen_compose(rng, t=None):
    t = t or tables()
    ctype = rng.choice(t["compose_types"])
    date = "%04d%02d%02d" % (rng.randint(1999, 2030), rng.randint(1, 12), rng.randint(1, 28))
    respin = rng.choice([0, 1, 2, 15])
    cid = "%s-%s-%s%s.%d" % (rng.choice(["Fedora", "RHEL", "F", "Supp-lement"]), rng.choice(["22", "7.1", "Rawhide"]), date,
                            COMPOSE_TYPES_SUFFIX.get(ctype, ""), respin)
    label, final = None, False
    r = rng.random()
    if r < 0.45:
        label = "%s-%d.%d" % (rng.choice(t["labels"]), rng.randint(0, 12), rng.randint(0, 9))
        final = rng.random() < 0.5
    elif r < 0.55:
        final = True                                    # final without a label: dropped by the writer (documented)
    return {"id": cid, "type": ctype, "date": date, "respin": respin, "label": label, "final": final}


def gen_checksums(rng, k):
    kinds = rng.sample(["md5", "sha1", "sha256"], rng.randint(1, 3))
    w = {"md5": 32, "sha1": 40, "sha256": 64}
    return dict((c, ("%x" % (rng.getrandbits(64) * 7919 + k)).rjust(w[c], "0")[:w[c]]) for c in kinds)


def gen_image(rng, k, variant="Server", arch="x86_64", t=None, stem=None):
    """k-th image of a manifest: type x format round-robin so that every enumeration value is used"""
    t = t or tables()
    ty, fmt = t["tf"][k % len(t["tf"])]
    unified = rng.random() < 0.3
    stem = stem if stem is not None else rng.choice(PATH_STEMS)
    return {
        "path": "%s/%s/%s/%s%d.%s" % (variant, arch, rng.choice(["iso", "images", "os"]), stem, k, fmt),
        "mtime": rng.choice(MTIMES),
        "size": rng.choice(BIG_SIZES + [1, 2, 700 * 2 ** 20]),
        "volume_id": rng.choice([None, None, "vol %d" % k, u"Völ-%d" % k, " "]),
        "type": ty, "format": fmt,
        "arch": rng.choice([arch, arch, "src", "noarch"]),
        "disc_number": rng.choice([1, 1, 2, k + 1, 0]),
        "disc_count": rng.choice([1, 2, k + 1]),
        "checksums": gen_checksums(rng, k),
        "implant_md5": rng.choice([None, "%032x" % rng.getrandbits(128)]),
        "bootable": rng.random() < 0.5,
        "subvariant": rng.choice(SUBVARIANTS),
        "unified": unified,
        "additional_variants": (rng.sample(["Client", "Workstation", "Server-optional", "A"], rng.randint(0, 3)) if unified else []),
    }


def make_unique(pool):
    """change disc_number where needed so that no two pool images of equal identity have different checksums"""
    seen = {}
    for img in pool:
        while True:
            key = json.dumps(identity7(img), sort_keys=True)
            if key not in seen or seen[key] == img["checksums"]:
                seen[key] = img["checksums"]
                break
            img["disc_number"] += 100
            img["disc_count"] = max(img["disc_count"], img["disc_number"])
    return pool


def gen(rng, tier="quick", version=None, unique=True, max_variants=3, max_arches=3, max_cell=6, share=True, k0=None):
    """a mostly-valid manifest per the quantifier of C02"""
    t = tables()
    k = rng.randrange(len(t["tf"])) if k0 is None else k0
    pool, adds = [], []
    variants = rng.sample(VARIANTS, rng.randint(1, max_variants))
    for v in variants:
        arches = rng.sample(t["arches"], rng.randint(1, max_arches))
        if rng.random() < 0.5:
            arches[0] = rng.choice(["x86_64", "i386", "ppc64le", "noarch", "aarch64"])
        for a in dict.fromkeys(arches):
            n = rng.choice([0, 1, 1, 2, 3, max_cell])
            stems = list(PATH_STEMS); rng.shuffle(stems)
            for j in range(n):
                pool.append(gen_image(rng, k, v, a, t, stem=stems[j % len(stems)])); k += 1
                adds.append([v, a, len(pool) - 1])
    if pool and rng.random() < 0.35:
        # the same content under another path: equal identity AND equal checksums is allowed
        src = rng.randrange(len(pool))
        twin = copy.deepcopy(pool[src]); twin["path"] = "twin/" + twin["path"]; twin["bootable"] = not twin["bootable"]
        pool.append(twin)
        adds.append([rng.choice(variants), rng.choice(t["arches"]), len(pool) - 1])
    if unique:
        make_unique(pool)
    if share and pool:
        for _ in range(rng.choice([0, 0, 1, 2, 3])):
            # the same OBJECT filed under further variants/arches (and once more into a cell it is already in)
            idx = rng.randrange(len(pool))
            v, a = rng.choice(variants + ["Shared"]), rng.choice(["x86_64", "s390x", "armhfp"] + t["arches"][:3])
            if all(not (x[0] == v and x[1] == a and pool[x[2]]["path"] == pool[idx]["path"] and x[2] != idx) for x in adds):
                adds.append([v, a, idx])
        if rng.random() < 0.2:
            adds.append(list(adds[rng.randrange(len(adds))]))
    rng.shuffle(adds)
    if version is None:
        version = rng.choice(["0.0", "0.0", "1.2", "1.1", "1.0", "2.0"])
    return {"version": version, "compose": gen_compose(rng, t), "pool": pool, "adds": adds}


# ------------------------------------------------------------------------------------------------ real side
def new_image(im, parent, attrs):
    obj = im.Image(parent)
    for f, val in attrs.items():
        setattr(obj, f, dec(copy.deepcopy(val)))          # spec values are in protocol encoding ($float / $other markers)
    return obj


def build(spec, strict=True):
    """-> (Images, [Image objects of the pool]); through the public API only.  strict=False: a refused add is skipped"""
    im = lib()
    m = im.Images()
    if spec.get("version") is not None:
        m.header.version = spec["version"]
    for f, val in spec.get("compose", {}).items():
        setattr(m.compose, f, copy.deepcopy(val))
    objs = [new_image(im, m, attrs) for attrs in spec["pool"]]
    for v, a, idx in spec["adds"]:
        try:
            m.add(v, a, objs[idx])
        except ValueError:
            if strict:
                raise
    for e in spec.get("edits", ()):
        if e[0] == "discard":
            m[e[1]][e[2]].discard(objs[e[3]])
        elif e[0] == "clear":
            m[e[1]][e[2]].clear()
        elif e[0] == "del_variant":
            del m[e[1]]
        elif e[0] == "del_arch":
            del m[e[1]][e[2]]
        elif e[0] == "add":
            try:
                m.add(e[1], e[2], objs[e[3]])
            except ValueError:
                if strict:
                    raise
    return m, objs


def record(obj):
    return dict((f, copy.deepcopy(getattr(obj, f))) for f in FIELDS)


def rec_key(r):
    return json.dumps(checklib.canon(r), sort_keys=True)


def snap_cells(images_dict):
    return dict((v, dict((a, sorted((record(o) for o in cell), key=rec_key)) for a, cell in d.items())) for v, d in images_dict.items())


def snap(m):
    return {"version": m.header.version, "compose": dict((f, getattr(m.compose, f)) for f in COMPOSE_FIELDS),
            "images": snap_cells(m.images)}


def cells_of_adds(pool, adds, edits=()):
    """{variant: {arch: [pool indices in insertion order, each once]}} - what Images.add and the edits build;
    empty buckets are kept (an emptied set stays in the dict)"""
    cells = {}
    def add(v, a, idx):
        c = cells.setdefault(v, {}).setdefault(a, [])
        if idx not in c:
            c.append(idx)
    for v, a, idx in adds:
        add(v, a, idx)
    for e in edits:
        if e[0] == "discard":
            if e[3] in cells[e[1]][e[2]]:
                cells[e[1]][e[2]].remove(e[3])
        elif e[0] == "clear":
            del cells[e[1]][e[2]][:]
        elif e[0] == "del_variant":
            del cells[e[1]]
        elif e[0] == "del_arch":
            del cells[e[1]][e[2]]
        elif e[0] == "add":
            add(e[1], e[2], e[3])
    return cells


def valid_edits(pool, adds, edits):
    """the edits that can still be applied (used when a spec is shrunk)"""
    out = []
    for e in edits:
        try:
            cells_of_adds(pool, adds, out + [e])
            out.append(e)
        except (KeyError, IndexError):
            pass
    return out


def cells_of_spec(spec):
    return cells_of_adds(spec["pool"], spec["adds"], spec.get("edits", ()))


def gen_edits(rng, spec, n=None):
    """edits through the public containers, valid for the spec (tracked on the emulated cells): removing single
    images, ALL images of a cell, whole variants, and re-adding"""
    edits = []
    for _ in range(rng.randint(1, 4) if n is None else n):
        cells = cells_of_adds(spec["pool"], spec["adds"], edits)
        buckets = [(v, a) for v, d in cells.items() for a in d]
        r = rng.random()
        if buckets and r < 0.45:
            v, a = rng.choice(buckets)
            c = cells[v][a]
            if c and rng.random() < 0.6:
                for idx in (list(c) if rng.random() < 0.5 else [rng.choice(c)]):       # all images of the cell, or one
                    edits.append(["discard", v, a, idx])
            else:
                edits.append(["clear", v, a])
        elif cells and r < 0.55:
            edits.append(["del_variant", rng.choice(list(cells))])
        elif buckets and r < 0.65:
            edits.append(["del_arch"] + list(rng.choice(buckets)))       # may leave a variant without arches
        elif spec["pool"]:
            idx = rng.randrange(len(spec["pool"]))
            v, a = rng.choice(buckets) if buckets and rng.random() < 0.7 else (rng.choice(VARIANTS), "x86_64")
            if all(not (spec["pool"][i]["path"] == spec["pool"][idx]["path"] and i != idx) for i in cells.get(v, {}).get(a, [])):
                edits.append(["add", v, a, idx])
    return edits


def expected_snapshot(spec, keep_empty=False):
    """the records per (variant, arch) the spec describes; empty buckets are dropped unless keep_empty (a written and
    re-read manifest has no empty bucket: the writer emits nothing for them)"""
    cells = cells_of_spec(spec)
    if not keep_empty:
        cells = dict((v, dict((a, c) for a, c in d.items() if c)) for v, d in cells.items())
        cells = dict((v, d) for v, d in cells.items() if d)
    return dict((v, dict((a, sorted((copy.deepcopy(spec["pool"][i]) for i in c), key=rec_key)) for a, c in d.items())) for v, d in cells.items())


def model_state(spec, version=None):
    cells = cells_of_spec(spec)
    return {"version": spec["version"] if version is None else version, "compose": enc(spec["compose"]),
            "cells": [[v, [[a, [[i, enc(spec["pool"][i])] for i in c]] for a, c in d.items()]] for v, d in cells.items()]}


def snap_of_model_state(st):
    """canonical snapshot of a state returned by the driver"""
    return {"version": dec(st["version"]), "compose": dec(st["compose"]),
            "images": dict((v, dict((a, sorted((dec(img) for _, img in cell), key=rec_key)) for a, cell in archs)) for v, archs in st["cells"])}


# ------------------------------------------------------------------------------------------------ spec-side identity (no library code)
def identity7(r):
    get = r.get if isinstance(r, dict) else (lambda k, d=None: getattr(r, k, d))
    return (get("subvariant"), get("type"), get("format"), get("arch"), get("disc_number"),
            get("unified") or False, get("additional_variants") or [])


def uniq_violations(records):
    out = []
    for i, a in enumerate(records):
        for b in records[i + 1:]:
            if identity7(a) == identity7(b) and a["checksums"] != b["checksums"]:
                out.append([a["path"], b["path"]])
    return out


def version_pair(v):
    try:
        a, b = v.strip().split(".")
        return (int(a), int(b))
    except Exception:
        return None


def doc_of_spec(spec, version="1.2", keep_defaults=False):
    """the document a writer of format `version` would produce for the spec, written out without library code
    (used to make documents with injected collisions / older headers); keep_defaults: also write unified /
    additional_variants when not unified (the reader accepts both spellings)"""
    cells = cells_of_spec(spec)
    images = {}
    for v, d in cells.items():
        for a, c in d.items():
            recs = []
            for i in c:
                r = copy.deepcopy(spec["pool"][i])
                if not r.get("unified") and not keep_defaults:
                    r.pop("unified", None); r.pop("additional_variants", None)
                recs.append(r)
            if recs:                                       # the writer emits nothing for an empty bucket
                images.setdefault(v, {})[a] = sorted(recs, key=lambda r: r["path"])
    comp = dict((k, spec["compose"][k]) for k in ("id", "type", "date", "respin"))
    if spec["compose"].get("label"):
        comp["label"] = spec["compose"]["label"]; comp["final"] = spec["compose"]["final"]
    return {"header": {"type": "productmd.images", "version": version}, "payload": {"compose": comp, "images": images}}


def doc_records(doc):
    """all image dicts of a document with the reader's defaults applied (spec side)"""
    out = []
    for v, d in doc["payload"]["images"].items():
        for a, cell in d.items():
            for r in cell:
                r = dict(r); r.setdefault("format", "iso"); r.setdefault("subvariant", "")
                out.append(r)
    return out
