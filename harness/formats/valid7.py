"""
Compact real-side builders for VALID objects of all seven formats, a uniform enumeration of their PARTS (every object
that has `validate()` and is reached by the writer, with a path such as `variants/Server/variants/optional`), generic
snapshots of parts (attribute -> protocol value, plus the pseudo-attributes documented in lean/ProductMD/Model/Customs.lean),
object-level snapshots in the shape the Lean model of C06/C07 reads, and a generic modification language used to corrupt
one field of one part.

Everything here runs the REAL library (imported through checklib.use_repo()).  Used by harness/props/c06.py and c07.py.
"""
import copy, io, json
import checklib

FORMATS = ["composeinfo", "images", "rpms", "modules", "extra_files", "treeinfo", "discinfo"]
ARCHES = ["x86_64", "i386", "ppc64le", "aarch64", "s390x"]
CI_CATS = ["os_tree", "packages", "repository", "isos", "images", "jigdos", "source_tree", "source_packages", "source_repository",
           "source_isos", "source_jigdos", "debug_tree", "debug_packages", "debug_repository"]
TI_PATHS = ["packages", "repository", "source_packages", "source_repository", "debug_packages", "debug_repository", "identity"]
IMAGE_FIELDS = ["path", "mtime", "size", "volume_id", "type", "format", "arch", "disc_number", "disc_count", "checksums",
                "implant_md5", "bootable", "subvariant", "unified", "additional_variants"]


def L():
    checklib.use_repo()
    import productmd.common, productmd.composeinfo, productmd.images, productmd.rpms, productmd.modules
    import productmd.extra_files, productmd.treeinfo, productmd.discinfo
    return productmd


def tables():
    p = L()
    return dict(RELEASE_TYPES=list(p.common.RELEASE_TYPES), COMPOSE_TYPES=list(p.composeinfo.COMPOSE_TYPES),
                LABEL_NAMES=list(p.composeinfo.LABEL_NAMES), VARIANT_TYPES=list(p.composeinfo.VARIANT_TYPES),
                TREEINFO_VARIANT_TYPES=list(p.treeinfo.VARIANT_TYPES), RPM_ARCHES=list(p.common.RPM_ARCHES),
                IMAGE_TF=[(t, f) for t, fs in sorted(p.images.IMAGE_TYPE_FORMAT_MAPPING.items()) for f in (fs or ["iso"])],
                SUPPORTED_IMAGE_TYPES=list(p.images.SUPPORTED_IMAGE_TYPES), SUPPORTED_IMAGE_FORMATS=list(p.images.SUPPORTED_IMAGE_FORMATS))


# ----------------------------------------------------------------------------------------------- protocol values
class Truthy(object):
    def __repr__(self):
        return "<Truthy>"


class Falsy(object):
    def __bool__(self):
        return False
    __nonzero__ = __bool__

    def __repr__(self):
        return "<Falsy>"


def enc(v):
    """python value -> protocol JSON (floats as {"$float": repr}, sets as {"$set": sorted list}, foreign objects as {"$other": truthy})"""
    if v is None or isinstance(v, (bool, int, str)):
        return v
    if isinstance(v, float):
        return {"$float": repr(v)}
    if isinstance(v, list):
        return [enc(x) for x in v]
    if isinstance(v, tuple):
        return {"$tuple": [enc(x) for x in v]}
    if isinstance(v, (set, frozenset)):
        try:
            items = sorted(v)
        except TypeError:
            items = sorted(v, key=repr)
        return {"$set": [enc(x) for x in items]}
    if isinstance(v, dict):
        if all(isinstance(k, str) and not k.startswith("$") for k in v):
            return dict((k, enc(x)) for k, x in v.items())
        return {"$other": bool(v)}
    return {"$other": bool(v)}


def dec(j):
    """protocol JSON -> python value for the real side"""
    if isinstance(j, list):
        return [dec(x) for x in j]
    if isinstance(j, dict):
        if list(j) == ["$float"]:
            return float(j["$float"])
        if list(j) == ["$other"]:
            return Truthy() if j["$other"] else Falsy()
        if list(j) == ["$set"]:
            return set(dec(x) for x in j["$set"])
        if list(j) == ["$tuple"]:
            return tuple(dec(x) for x in j["$tuple"])
        return dict((k, dec(x)) for k, x in j.items())
    return j


SET_AS_LIST = ("arches", "platforms", "tree.platforms")


def to_model(j, key=None):
    """protocol JSON -> what the Lean driver reads.  PyVal has no set: the sets whose ELEMENTS the validators read (arches,
    platforms) travel as lists, any other set is a foreign object"""
    if isinstance(j, list):
        return [to_model(x) for x in j]
    if isinstance(j, dict):
        if list(j) == ["$set"]:
            if key in SET_AS_LIST:
                return [to_model(x) for x in j["$set"]]
            return {"$other": bool(j["$set"])}
        if list(j) == ["$tuple"]:
            if key in SET_AS_LIST:
                return [to_model(x) for x in j["$tuple"]]
            return {"$other": bool(j["$tuple"])}
        if list(j) in (["$float"], ["$other"]):
            return j
        return dict((k, to_model(x, k)) for k, x in j.items())
    return j


# ----------------------------------------------------------------------------------------------- generators (specs)
# free text that is LEGAL wherever the rule is "str" / "non-blank str" (GENERATOR_AUDIT A1, A2, A4, A5): blanks of every kind, the formats' own
# delimiters and their doubled form, case variants, non-ASCII letters and digits, an astral character, a long value, look-alikes of other types
TEXT_POOL = ["Fedora", "Red Hat Enterprise Linux", "X \u00e9", "a b", " lead", "trail ", "a  b", "tab\there", "nb\u00a0sp", " ", "a-b", "a--b", "a.b", "a..b",
             "a:b", "a::b", "a/b", "a//b", "a@b", "a,b", "a,,b", "a;b", "a=b", "a = b", "#a", "a#b", "a%b", "a%%b", "%(x)s", "[a]", "]a[", '"a"', "'a'", "a\\b",
             "a\\\\b", "FEDORA", "fedora", "FeDoRa", "\u0663\uff17", "\U0001d518x", "n" * 300, "None", "null", "0", "False", "1.0"]
INT_POOL = [1, -1, 2 ** 31, 2 ** 32 + 7, 2 ** 53 + 1, 2 ** 63 - 1, 10 ** 7, 10 ** 8, 3, 12]      # no bool: not a valid int since the F22/F43 repair (a corruption candidate via rules7.TYPE_POOL)
REL_PATHS = ["a/b.iso", "a/b/", "a//b", "./a/b", "a/../b", "a/a/a", "..", ".", " a", "a b/c", "A/b", "a/B", "\u00e9/\u0663", "p" * 300, "a:b", "a=b", "a#b", "a%b", "[a]/b"]


def _text(rng, k, salt=0):
    """round-robin through TEXT_POOL (every entry is used, not sampled), mixed with the plain names"""
    if (k + salt) % 3:
        return rng.choice(["Fedora", "Red Hat Enterprise Linux", "a b", "n"])
    return TEXT_POOL[((k + salt) // 3) % len(TEXT_POOL)]


def _rel(rng, k, T, layered=False):
    return dict(name=_text(rng, k, 0), short=rng.choice(["F", "rhel", "My-Prod", _text(rng, k, 1)]),
                version=rng.choice(["22", "7.1", "Rawhide", "1.2.3", "0", "10.20.30", "1.0", "x-y", "None", "\u00e9"]), type=T["RELEASE_TYPES"][k % len(T["RELEASE_TYPES"])],
                is_layered=layered, internal=(k % 3 == 0))


def _compose(rng, k, T):
    ctype = T["COMPOSE_TYPES"][k % len(T["COMPOSE_TYPES"])]
    suffix = {"production": "", "ci": ".ci", "nightly": ".n", "test": ".t", "development": ".d"}.get(ctype, "")
    date = "%08d" % rng.randrange(10 ** 8)
    if k % 11 == 3:
        date = "".join(chr(0x0660 + int(c)) for c in date)          # `\d` is Unicode-aware: Arabic-Indic digits are in the documented language
    if k % 11 == 7:
        date = "".join(chr(0xFF10 + int(c)) for c in date)
    respin = [0, 1, 12, 10, 10 ** 7, 10 ** 8, 2, 2 ** 63 - 1, -1][k % 9] if k % 2 else rng.choice([0, 1, 12])
    label = None
    if k % 2 == 0:
        # label and `final` are decoupled: both values of final with and without a label (A9)
        label = "%s-%d.%d" % (T["LABEL_NAMES"][(k // 2) % len(T["LABEL_NAMES"])], rng.choice([0, 1, 10, 19, 123]), rng.choice([0, 1, 10, 19, 123]))
    cid = rng.choice(["Rel-1.0-%s%s.%s", "%s%s.%s", " x %s%s.%s trailing", "Rel-1.0-%s%s.%s.more"]) % (date, suffix, int(respin))
    return dict(id=cid, type=ctype, date=date, respin=respin, label=label, final=[False, True, True, False][(k // 2) % 4])


def gen(rng, fmt, k):
    """a spec (JSON-able) of a valid object; `k` drives the round-robin over every enumeration value and every pool entry"""
    T = tables()
    if fmt == "composeinfo":
        layered = (k % 3 == 1)
        spec = dict(release=_rel(rng, k, T, layered), base_product=_rel(rng, k + 1, T) if layered else None, compose=_compose(rng, k, T), variants=[],
                    style=k % 2)
        n = [0]
        arch_tab = [a for a in T["RPM_ARCHES"] if a not in ("src", "nosrc")]
        top_arches = ARCHES + [arch_tab[k % len(arch_tab)], arch_tab[-1]]          # every documented arch, the LAST table entry every time

        def mkv(parent, depth):
            n[0] += 1
            vid = "V%d%s" % (n[0], rng.choice(["", "x", "Z"]))
            if parent is None and n[0] == 2 and k % 5 == 2:
                vid = spec["variants"][0]["id"].swapcase()                          # two ids that differ only in case (A4)
            vt = T["VARIANT_TYPES"]
            vtype = vt[(k + n[0]) % len(vt)]
            uid = vid if parent is None else parent["uid"] + "-" + vid
            if parent is None and rng.random() < 0.2 and vtype != "optional" and len(vid) > 1:
                uid = vid[:1] + "-" + vid[1:]
            pa = parent["arches"] if parent is not None else sorted(set(top_arches))
            arches = sorted(rng.sample(pa, rng.randint(1, len(pa))))
            v = dict(id=vid, uid=uid, name=_text(rng, k, n[0]), type=vtype, arches=arches,
                     release=_rel(rng, k + n[0], T, True) if vtype == "layered-product" else None, paths={}, kids=[])
            for cat in rng.sample(CI_CATS, rng.randint(0, 3)):
                v["paths"][cat] = dict((a, REL_PATHS[(k + n[0]) % len(REL_PATHS)]) for a in rng.sample(arches, rng.randint(1, len(arches))))
            if k % 7 == 4:
                v["paths"][CI_CATS[-1]] = {}                                        # an EMPTY bucket that still exists (A10)
            if depth < 3 and "-" not in (uid if parent is None else ""):
                for _ in range(rng.choice([0, 0, 1, 2])):
                    v["kids"].append(mkv(v, depth + 1))
                rng.shuffle(v["kids"])                                              # insertion order differs from sorted order
            return v
        for _ in range(0 if k % 13 == 6 else rng.randint(1, 3)):                    # a compose without variants is legal
            spec["variants"].append(mkv(None, 1))
        rng.shuffle(spec["variants"])
        return spec
    if fmt == "images":
        spec = dict(compose=_compose(rng, k, T), images=[], version=["1.2", "0.0", "1.0", "1.1"][k % 4], shared=[], empty_cells=[])
        TF = T["IMAGE_TF"]
        arch_tab = [a for a in T["RPM_ARCHES"] if a not in ("src", "nosrc")]
        j = 0
        cells = [] if k % 13 == 6 else [(v, a) for v in rng.sample(["Server", "Client", "Work-station", "server"], rng.randint(1, 2))
                                        for a in rng.sample(["x86_64", "i386", "ppc64le", "noarch"], rng.randint(1, 2))]
        if cells:
            cells.append((cells[0][0], arch_tab[k % len(arch_tab)]))                # every documented arch as a cell key …
            cells.append((cells[0][0], arch_tab[-1]))                               # … and the last table entry in every manifest
        for v, a in cells:
            for _ in range(rng.randint(1, 3)):
                j += 1
                t, f = TF[(k * len(cells) + j) % len(TF)] if j > 1 else TF[k % len(TF)]
                u = rng.random() < 0.3
                num = rng.choice([1, 3, 10, j])
                spec["images"].append(dict(variant=v, arch=a, fields=dict(
                    path=REL_PATHS[(k + j) % len(REL_PATHS)] if (k + j) % 3 == 0 else "%s/%s/%s%d.%s" % (v, a, rng.choice(["a", "B", "0"]), j, f),
                    mtime=rng.choice([0, 1, -1] + INT_POOL), size=INT_POOL[(k + j) % len(INT_POOL)],
                    volume_id=rng.choice([None, "vol %d" % j, " ", _text(rng, k, j)]), type=t, format=f,
                    arch=rng.choice([a, "src", "nosrc", "i386", arch_tab[(k + j) % len(arch_tab)], _text(rng, k, j + 1)]),       # decoupled from the cell key
                    disc_number=num + 10 * j, disc_count=rng.choice([num, 1, 3, 0, -1, 2, 2 ** 31]),                            # decoupled from each other
                    checksums=dict(rng.sample([("md5", "m%d" % j), ("sha1", "s%d" % j), ("sha256", "S%d" % j), ("SHA256", "x"), ("", "")], rng.randint(1, 3))),
                    implant_md5=rng.choice([None, "%032x" % (j * 7919), "0" * 32, "z" * 32]), bootable=rng.random() < 0.5,
                    subvariant=rng.choice(["", "KDE", "Server", _text(rng, k, j + 2)]),
                    unified=u, additional_variants=(rng.sample(["A", "B", "C", "", "A"], rng.randint(0, 3)) if u else []))))
        if spec["images"] and k % 4 == 1:
            spec["shared"].append([0, "Shared", "x86_64"])                          # the same Image object filed in a second cell
        if k % 6 == 5:
            spec["empty_cells"].append(["Emptied", "x86_64"])                       # a cell whose only image was removed again
        return spec
    if fmt == "rpms":
        spec = dict(compose=_compose(rng, k, T), rpms=[])
        for i in range(rng.randint(0, 3)):
            spec["rpms"].append(["Server", rng.choice(["x86_64", "i386"]), "pkg%d-0:1.0-%d.x86_64" % (i, i), "Server/p/pkg%d.rpm" % i, rng.choice([None, "ABCD"]), "binary", "pkg%d-0:1.0-%d.src" % (i, i)])
        return spec
    if fmt == "modules":
        spec = dict(compose=_compose(rng, k, T), modules=[])
        for i in range(rng.randint(0, 2)):
            spec["modules"].append(["Server", "x86_64", "mod%d:stream:%d:ctx" % (i, 2020 + i), "tag-%d" % i, "Server/x86_64/mod%d.yaml" % i, "binary", ["a-0:1-1.x86_64"]])
        return spec
    if fmt == "extra_files":
        spec = dict(compose=_compose(rng, k, T), extra_files=[])
        for i in range(rng.randint(0, 2)):
            spec["extra_files"].append(["Server", "x86_64", "Server/x86_64/os/GPL%d" % i, 100 + i, {"sha256": "ab%d" % i}])
        return spec
    if fmt == "treeinfo":
        arch = rng.choice(["x86_64", "ppc64le", "src", "ppc", "ppc64"])
        layered = (k % 3 == 1)
        plats = sorted(set(rng.sample(["xen", "efi", "Mixed", "mixed", "x86_64-xen", "a b"], rng.randint(0, 3))) | {arch})
        # numbers: boundaries, negative, fraction >= .5, beyond 2^53; the two NON-FINITE floats are floats too (finding F35), bounded in number
        stamps = [1, 123456, -5, 2 ** 40, 1234.5, -0.5, 0.5, 2 ** 53 + 1, 2 ** 63 - 1, 1e300, 2, -1]
        ts = stamps[k % len(stamps)]
        if k % 41 == 9:
            ts = {"$float": ["inf", "-inf", "nan"][(k // 41) % 3]}
        text = lambda salt: _text(rng, k, salt).replace("\n", " ")
        spec = dict(release=dict(name=text(0), short=rng.choice(["F", "RHEL", text(1)]),
                                 version=rng.choice(["20", "7.1", "Rawhide", "1.2.3", "0", "10.20.30", "x-7", "\u0663", "\u0663.\uff17"]), is_layered=layered),
                    base_product=dict(name=text(2), short="B", version=rng.choice(["7", "Beta", "7.1"])) if layered else None,
                    tree=dict(arch=arch, build_timestamp=ts, platforms=plats), variants=[],
                    images={}, stage2=dict(mainimage=None, instimage=None), media=dict(discnum=None, totaldiscs=None), checksums={}, style=k % 2)
        n = 0
        TV = T["TREEINFO_VARIANT_TYPES"]
        nvar = 0 if k % 43 == 11 else rng.randint(1, 3)                              # a tree without variants satisfies every field rule (finding F12)
        for _ in range(nvar):
            n += 1
            v = dict(id="V%d" % n, uid="V%d" % n, name=text(n + 2), type=rng.choice(["variant", "optional"]), paths={}, kids=[])
            if n == 2 and k % 5 == 2:
                v["id"] = v["uid"] = "v1"                                            # ids that differ only in case
            if n == 1 and k % 5 == 3:
                v.update(id="optional", uid="V9-optional", type="optional", key="V9-optional")   # top-level UID != id, keyed by its UID (A9)
            for f in rng.sample(TI_PATHS, rng.randint(0, 4)):
                v["paths"][f] = rng.choice([".", "Packages", "a b/c"] + REL_PATHS)
            for _ in range(rng.choice([0, 0, 1, 2]) if "key" not in v else 0):
                n += 1
                c = dict(id="K%d" % n, uid=v["uid"] + "-K%d" % n, name="kid", type=TV[(k + n) % len(TV)], paths={}, kids=[])
                v["kids"].append(c)
            rng.shuffle(v["kids"])
            spec["variants"].append(v)
        rng.shuffle(spec["variants"])
        for p in rng.sample(plats, rng.randint(0, len(plats))):
            names = rng.sample(["kernel", "Kernel", "initrd", "boot.iso", "UPGRADE", "a b"], rng.randint(1, 3))
            spec["images"][p] = dict((i, rng.choice(["images/%s/%s" % (p, i), REL_PATHS[(k + len(i)) % len(REL_PATHS)], ""])) for i in names)
        if k % 7 == 4 and plats:
            spec["images"][plats[0]] = {}                                            # a platform table that exists but is empty
        if rng.random() < 0.6:
            spec["stage2"]["mainimage"] = rng.choice(["LiveOS/squashfs.img"] + REL_PATHS)
        if rng.random() < 0.2:
            spec["stage2"]["instimage"] = rng.choice(["images/install.img", "/abs/is/not/checked", ""])
        if rng.random() < 0.5:
            spec["media"] = rng.choice([dict(discnum=rng.randint(1, 3), totaldiscs=3), dict(discnum=1, totaldiscs=1), dict(discnum=3, totaldiscs=1),
                                        dict(discnum=10, totaldiscs=2 ** 31), dict(discnum=1, totaldiscs=1), dict(discnum=-1, totaldiscs=-1)])
        for i in range(rng.randint(0, 3)):
            spec["checksums"][rng.choice(["images/boot%d.iso", "./x//y/../Z%d.img", "UP/low%d", "a b/%d", "up/LOW%d"]) % i] = \
                [rng.choice(["sha256", "md5", "SHA256", "sha512", ""]), "%x" % rng.getrandbits(64)]
        return spec
    if fmt == "discinfo":
        stamps = [1.5, 1400000000.123, -2.0, 1e10, 0.5, -0.5, 1e300, 5e-324, float(2 ** 53 + 1)]
        ts = {"$float": repr(stamps[k % len(stamps)])}
        if k % 37 == 8:
            ts = {"$float": ["inf", "-inf", "nan"][(k // 37) % 3]}
        return dict(timestamp=ts, description=_text(rng, k, 0) if _text(rng, k, 0).strip() else "x", arch=rng.choice(ARCHES + [_text(rng, k, 1)]),
                    disc_numbers=[["ALL"], [1], [1, 2, 3], [0], [10, 11], ["ALL", "ALL"], ["all"], [1, 1], [3, 1, 2], ["x"], [-1], [True], [2 ** 63]][k % 13])
    raise ValueError(fmt)


# ----------------------------------------------------------------------------------------------- build
def _set(obj, d, names=None):
    for k2, v in d.items():
        if names is None or k2 in names:
            setattr(obj, k2, dec(copy.deepcopy(v)))


def build(fmt, spec):
    p = L()
    if fmt == "composeinfo":
        ci = p.composeinfo.ComposeInfo()
        _set(ci.release, spec["release"])
        if spec["base_product"]:
            _set(ci.base_product, spec["base_product"], ("name", "short", "version", "type"))
        _set(ci.compose, spec["compose"])

        def mk(vs, parent):
            v = p.composeinfo.Variant(ci)
            _set(v, vs, ("id", "uid", "name", "type"))
            style = spec.get("style", 0)
            if style:                                   # fill the default containers in place …
                v.arches.update(vs["arches"])
            else:                                       # … or assign fresh ones
                v.arches = set(vs["arches"])
            if vs["release"]:
                _set(v.release, vs["release"])
            for cat, d in vs["paths"].items():
                if style:
                    setattr(v.paths, cat, dict(d))
                else:
                    getattr(v.paths, cat).update(d)
            (parent if parent is not None else ci.variants).add(v)
            for kid in vs["kids"]:
                mk(kid, v)
        for vs in spec["variants"]:
            mk(vs, None)
        return ci
    if fmt == "images":
        im = p.images.Images()
        im.header.version = spec.get("version", "1.2")
        _set(im.compose, spec["compose"])
        objs = []
        for e in spec["images"]:
            i = p.images.Image(im)
            _set(i, e["fields"])
            im.add(e["variant"], e["arch"], i)
            objs.append(i)
        for idx, variant, arch in spec.get("shared", []):
            im.add(variant, arch, objs[idx])
        for variant, arch in spec.get("empty_cells", []):
            tmp = p.images.Image(im)
            _set(tmp, dict(spec["images"][0]["fields"], disc_number=999999) if spec["images"] else {})
            im.images.setdefault(variant, {}).setdefault(arch, set()).add(tmp)
            im.images[variant][arch].discard(tmp)
        return im
    if fmt == "rpms":
        o = p.rpms.Rpms(); _set(o.compose, spec["compose"])
        for a in spec["rpms"]:
            o.add(*a)
        return o
    if fmt == "modules":
        o = p.modules.Modules(); _set(o.compose, spec["compose"])
        for a in spec["modules"]:
            o.add(*a)
        return o
    if fmt == "extra_files":
        o = p.extra_files.ExtraFiles(); _set(o.compose, spec["compose"])
        for a in spec["extra_files"]:
            o.add(*a)
        return o
    if fmt == "treeinfo":
        ti = p.treeinfo.TreeInfo()
        _set(ti.release, spec["release"])
        if spec["base_product"]:
            _set(ti.base_product, spec["base_product"])
        ti.tree.arch = spec["tree"]["arch"]; ti.tree.build_timestamp = dec(spec["tree"]["build_timestamp"]); ti.tree.platforms = set(spec["tree"]["platforms"])

        def mk(vs, parent):
            v = p.treeinfo.Variant(ti)
            _set(v, vs, ("id", "uid", "name", "type"))
            for f, x in vs["paths"].items():
                setattr(v.paths, f, x)
            if parent is None:
                if vs.get("key"):
                    ti.variants.add(v, variant_id=vs["key"])
                else:
                    ti.variants.add(v)
            else:
                parent.add(v)
            for kid in vs["kids"]:
                mk(kid, v)
        for vs in spec["variants"]:
            mk(vs, None)
        if spec.get("style", 0):
            for plat, tab in spec["images"].items():
                ti.images.images[plat] = {}
                ti.images.images[plat].update(tab)
        else:
            ti.images.images = copy.deepcopy(spec["images"])
        _set(ti.stage2, spec["stage2"]); _set(ti.media, spec["media"])
        for path, tv in spec["checksums"].items():
            if spec.get("style", 0):
                ti.checksums.add(path, tv[0], tv[1])          # the public way: the key is normalised
            else:
                ti.checksums.checksums[path] = list(tv)
        return ti
    if fmt == "discinfo":
        d = p.discinfo.DiscInfo()
        _set(d, spec)
        return d
    raise ValueError(fmt)


def new(fmt):
    p = L()
    return {"composeinfo": p.composeinfo.ComposeInfo, "images": p.images.Images, "rpms": p.rpms.Rpms, "modules": p.modules.Modules,
            "extra_files": p.extra_files.ExtraFiles, "treeinfo": p.treeinfo.TreeInfo, "discinfo": p.discinfo.DiscInfo}[fmt]()


def cls_name(o):
    return "%s.%s" % (type(o).__module__.split(".")[-1], type(o).__name__)


# ----------------------------------------------------------------------------------------------- parts
def _image_order(cell):
    return sorted(cell, key=lambda i: (repr(getattr(i, "path", None)), id(i)))


def all_parts(fmt, obj):
    """every object with validate() in the object graph that belongs to the format: [(path, part)], independent of guards"""
    out = [("", obj)]
    if fmt in ("composeinfo", "images", "rpms", "modules", "extra_files"):
        out += [("header", obj.header), ("compose", obj.compose)]
    if fmt == "composeinfo":
        out += [("release", obj.release), ("base_product", obj.base_product), ("variants", obj.variants)]

        def rec(prefix, cont):
            for key in sorted(cont.variants, key=repr):
                v = cont.variants[key]
                pth = "%s/%s" % (prefix, key)
                out.append((pth, v)); out.append((pth + "/release", v.release)); out.append((pth + "/paths", v.paths))
                rec(pth + "/variants", v)
        rec("variants", obj.variants)
    if fmt == "images":
        for v in sorted(obj.images):
            for a in sorted(obj.images[v]):
                for n, i in enumerate(_image_order(obj.images[v][a])):
                    out.append(("images/%s/%s/%d" % (v, a, n), i))
    if fmt == "treeinfo":
        out += [("header", obj.header), ("release", obj.release), ("base_product", obj.base_product), ("tree", obj.tree), ("variants", obj.variants)]

        def rec(prefix, cont):
            for key in sorted(cont.variants, key=repr):
                v = cont.variants[key]
                pth = "%s/%s" % (prefix, key)
                out.append((pth, v)); out.append((pth + "/paths", v.paths))
                rec(pth + "/variants", v)
        rec("variants", obj.variants)
        out += [("checksums", obj.checksums), ("images", obj.images), ("stage2", obj.stage2), ("media", obj.media)]
    return out


def truthy(x):
    try:
        return bool(x)
    except Exception:
        return True


def written_parts(fmt, obj):
    """the parts the WRITER reaches (spec side: what a dump is about): base product only for a layered release, a
    variant's own release only for a layered-product, treeinfo images/stage2/media only when they have content"""
    out = []
    for pth, part in all_parts(fmt, obj):
        leaf = pth.rsplit("/", 1)[-1]
        if fmt in ("composeinfo", "treeinfo") and pth == "base_product" and not truthy(obj.release.is_layered):
            continue
        if fmt == "composeinfo" and leaf == "release" and pth != "release":
            owner = dict(all_parts(fmt, obj))[pth[:-len("/release")]]
            if not (isinstance(owner.type, str) and owner.type == "layered-product"):
                continue
        if fmt == "treeinfo":
            if pth == "images" and not truthy(part.images):
                continue
            if pth == "stage2" and not truthy(part.mainimage) and not truthy(part.instimage):
                continue
            if pth == "media" and not truthy(part.discnum) and not truthy(part.totaldiscs):
                continue
        out.append((pth, part))
    return out


# ----------------------------------------------------------------------------------------------- snapshots
def _variants_pseudo(cont):
    d = {}
    for key, ch in cont.variants.items():
        if not isinstance(key, str):
            return {"$other": True}
        d[key] = {"id": enc(getattr(ch, "id", None)), "uid": enc(getattr(ch, "uid", None)), "type": enc(getattr(ch, "type", None)),
                  "parent_none": ch.parent is None}
    return d


def snap_part(fmt, obj, pth, part):
    """attribute -> protocol value as the validators of the part see it (plus pseudo-attributes)"""
    p = L()
    out = {}
    for k, v in vars(part).items():
        if k.startswith("_") or k in ("parent", "variants", "paths", "release", "header", "compose", "images", "rpms", "modules", "extra_files",
                                      "base_product", "tree", "checksums", "stage2", "media", "metadata_type"):
            continue
        out[k] = enc(v)
    c = cls_name(part)
    if c in ("composeinfo.Variant", "treeinfo.Variant"):
        par = part.parent
        if par is None:
            out["parent"] = None
        else:
            out["parent"] = {"uid": enc(getattr(par, "uid", None))}
            if c == "composeinfo.Variant":
                out["parent"]["arches"] = enc(getattr(par, "arches", None))
        out["variants"] = _variants_pseudo(part)
    if c in ("composeinfo.Variants", "treeinfo.Variants"):
        out["variants"] = _variants_pseudo(part)
    if c == "treeinfo.Images":
        out["images"] = enc(part.images)
        out["tree.platforms"] = enc(obj.tree.platforms)
    if c == "treeinfo.Checksums":
        out["checksums"] = enc(part.checksums)
    if c == "treeinfo.Tree":
        out["platforms"] = enc(part.platforms)
    if c == "images.Image":
        out["checksums"] = enc(part.checksums)
    return out


def snap_obj(fmt, obj):
    """the whole object in the shape the Lean model reads (lean/ProductMD/Driver/OpsValidation.lean)"""
    S = lambda pth, part: to_model(snap_part(fmt, obj, pth, part))
    if fmt in ("rpms", "modules", "extra_files"):
        return {"header": S("header", obj.header), "compose": S("compose", obj.compose)}
    if fmt == "images":
        cells = []
        for v in obj.images:
            row = []
            for a in obj.images[v]:
                row.append([a, [S("", i) for i in _image_order(obj.images[v][a])]])
            cells.append([v, row])
        return {"header": S("header", obj.header), "compose": S("compose", obj.compose), "cells": cells}
    if fmt == "composeinfo":
        def var(v):
            return {"attrs": S("", v), "release": S("", v.release), "kids": [[k, var(c)] for k, c in v.variants.items()]}
        return {"header": S("header", obj.header), "compose": S("compose", obj.compose), "release": S("release", obj.release),
                "base_product": S("base_product", obj.base_product), "variants": [[k, var(v)] for k, v in obj.variants.variants.items()]}
    if fmt == "treeinfo":
        def var(v):
            return {"attrs": S("", v), "kids": [[k, var(c)] for k, c in v.variants.items()]}
        return {"header": S("header", obj.header), "release": S("release", obj.release), "base_product": S("base_product", obj.base_product),
                "tree": S("tree", obj.tree), "variants": [[k, var(v)] for k, v in obj.variants.variants.items()],
                "checksums": S("checksums", obj.checksums), "images": S("images", obj.images), "stage2": S("stage2", obj.stage2),
                "media": S("media", obj.media)}
    if fmt == "discinfo":
        return {"obj": S("", obj)}
    raise ValueError(fmt)


# ----------------------------------------------------------------------------------------------- modifications
_MISSING = object()


def apply_mod(fmt, obj, mod, inplace=False):
    """one modification of the real object graph; returns a function that undoes it (restores the previous value):
       {"path": p, "set": attr, "value": protocol value}                      setattr
       {"path": p, "setitem": attr, "keys": [k1, ..], "value": v}             part.attr[k1]..[kn] = v
       {"path": p, "rekey": [old, new]}                                       container.variants: move a child to another key
    """
    part = dict(all_parts(fmt, obj))[mod["path"]]
    if "set" in mod and inplace:
        # the same change made IN PLACE on the container the attribute holds (d.clear(); d.update(new) / l[:] = new): no
        # attribute is assigned, so anything keyed on assignment (a "validated" flag reset by __setattr__, …) does not notice
        cur, new = getattr(part, mod["set"], _MISSING), dec(copy.deepcopy(mod["value"]))
        for typ in (dict, list, set):
            if isinstance(cur, typ) and isinstance(new, typ):
                saved = copy.copy(cur)
                if typ is list:
                    cur[:] = new
                else:
                    cur.clear(); cur.update(new)

                def undo():
                    if typ is list:
                        cur[:] = saved
                    else:
                        cur.clear(); cur.update(saved)
                return undo
    if "set" in mod:
        old = getattr(part, mod["set"], _MISSING)
        setattr(part, mod["set"], dec(copy.deepcopy(mod["value"])))

        def undo():
            if old is _MISSING:
                delattr(part, mod["set"])
            else:
                setattr(part, mod["set"], old)
        return undo
    if "setitem" in mod:
        d = getattr(part, mod["setitem"])
        for k in mod["keys"][:-1]:
            d = d[k]
        last = mod["keys"][-1]
        old = d.get(last, _MISSING)
        d[last] = dec(copy.deepcopy(mod["value"]))

        def undo():
            if old is _MISSING:
                del d[last]
            else:
                d[last] = old
        return undo
    if "rekey" in mod:
        old, new = mod["rekey"]
        part.variants[new] = part.variants.pop(old)

        def undo():
            part.variants[old] = part.variants.pop(new)
        return undo
    raise ValueError(mod)


def dumps(fmt, obj):
    return obj.dumps()


def outcome(f, *a):
    try:
        r = f(*a)
        return {"ok": r}
    except RecursionError:
        return {"err": "RecursionError"}
    except Exception as e:  # noqa
        return {"err": type(e).__name__, "msg": str(e)[:120]}
