"""
Spec side of C06/C07 in Python: the rule catalogue of DESIGN.md Appendix C (mirror of lean/ProductMD/Spec/Rules.lean, same order,
kept consistent with it on every case through the driver op `c06_spec`), an evaluator over part snapshots (protocol values of
formats/valid7.py) that does NOT call the library's validators, and generators of values from the complement of each rule.

Regular-expression rules are evaluated in the DOCUMENTED sense (a `$`-anchored pattern does not accept a trailing line feed);
`lenient=True` gives CPython's sense, the difference is finding F15.
"""
import re

# rule syntax: ("type", f, [types]) ("value", f, table) ("nb", f) ("re", f, [patterns]) ("guard", cond, rule) ("failif", cond) ("custom", name)
# cond syntax: ("truthy", f) ("notnone", f) ("rematch", p, f) ("startswith", f, pre) ("contains", f, c) ("not", c) ("and", a, b)
RELEASE_VERSION = r"^([^0-9].*|([0-9]+(\.[0-9]+)*))$"
HEADER = [("type", "version", ["str"]), ("re", "version", [r"^\d+\.\d+$"])]
COMPOSE = [("type", "id", ["str"]), ("nb", "id"), ("re", "id", [r".*\d{8}(\.nightly|\.n|\.ci|\.test|\.t)?(\.\d+)?"]),
           ("type", "date", ["str"]), ("re", "date", [r"^\d{8}$"]), ("value", "type", "COMPOSE_TYPES"), ("type", "respin", ["int"]),
           ("type", "label", ["none", "str"]), ("custom", "label"), ("guard", ("truthy", "label"), ("type", "final", ["bool"]))]
CI_BASE = [("type", "name", ["str"]), ("type", "short", ["str"]), ("type", "version", ["str"]), ("re", "version", [RELEASE_VERSION]),
           ("type", "type", ["str"]), ("value", "type", "RELEASE_TYPES")]
CI_RELEASE = CI_BASE + [("type", "is_layered", ["bool"]), ("type", "internal", ["bool"])]
CI_VARIANT = [("type", "id", ["str"]), ("re", "id", [r"^[a-zA-Z0-9]+$"]), ("type", "name", ["str"]), ("nb", "name"),
              ("value", "type", "VARIANT_TYPES"), ("nb", "arches"), ("custom", "ci_uid"), ("custom", "ci_parent_arch"), ("custom", "variant_keys")]
IMAGE = [("type", "path", ["str"]), ("nb", "path"), ("type", "mtime", ["int"]), ("type", "size", ["int"]), ("nb", "size"),
         ("type", "volume_id", ["none", "str"]), ("guard", ("notnone", "volume_id"), ("nb", "volume_id")),
         ("type", "type", ["str"]), ("value", "type", "SUPPORTED_IMAGE_TYPES"), ("type", "format", ["str"]), ("value", "format", "SUPPORTED_IMAGE_FORMATS"),
         ("type", "arch", ["str"]), ("nb", "arch"), ("type", "disc_number", ["int"]), ("type", "disc_count", ["int"]),
         ("type", "checksums", ["dict"]), ("nb", "checksums"),
         ("type", "implant_md5", ["none", "str"]), ("guard", ("notnone", "implant_md5"), ("re", "implant_md5", [r"^[a-z0-9]{32}$"])),
         ("type", "bootable", ["bool"]), ("type", "subvariant", ["str"]), ("type", "unified", ["bool"]), ("type", "additional_variants", ["list"]),
         ("failif", ("and", ("truthy", "additional_variants"), ("not", ("truthy", "unified"))))]
TI_VERSION = [("type", "version", ["str"]), ("guard", ("rematch", r"^\d", "version"), ("re", "version", [r"^\d+(\.\d+)*$"]))]
TI_BASE = [("type", "name", ["str"]), ("type", "short", ["str"])] + TI_VERSION
TI_RELEASE = TI_BASE + [("type", "is_layered", ["bool"])]
TI_TREE = [("type", "arch", ["str"]), ("nb", "arch"), ("type", "build_timestamp", ["int", "float"]), ("nb", "build_timestamp")]
TI_VARIANT = [("type", "id", ["str"]), ("failif", ("contains", "id", "-")), ("value", "type", "TREEINFO_VARIANT_TYPES"), ("custom", "ti_uid"), ("custom", "variant_keys")]
TI_STAGE2 = [("guard", ("truthy", "mainimage"), ("type", "mainimage", ["str"])), ("guard", ("truthy", "mainimage"), ("failif", ("startswith", "mainimage", "/")))]
TI_MEDIA = [("type", "discnum", ["int", "none"]), ("type", "totaldiscs", ["int", "none"])]
DISC = [("custom", "disc_timestamp"), ("nb", "description"), ("type", "description", ["str"]), ("nb", "arch"), ("type", "arch", ["str"]),
        ("nb", "disc_numbers"), ("type", "disc_numbers", ["list"])]

CATALOGUE = {
    "common.Header": HEADER, "composeinfo.BaseProduct": CI_BASE, "composeinfo.Compose": COMPOSE, "composeinfo.Release": CI_RELEASE,
    "composeinfo.Variant": CI_VARIANT, "composeinfo.Variants": [("custom", "variant_keys")], "images.Image": IMAGE,
    "treeinfo.BaseProduct": TI_BASE, "treeinfo.Checksums": [("custom", "ti_checksum_paths")], "treeinfo.Header": HEADER,
    "treeinfo.Images": [("custom", "ti_image_paths"), ("custom", "ti_platforms")], "treeinfo.Media": TI_MEDIA, "treeinfo.Release": TI_RELEASE,
    "treeinfo.Stage2": TI_STAGE2, "treeinfo.Tree": TI_TREE, "treeinfo.Variant": TI_VARIANT, "treeinfo.Variants": [("custom", "variant_keys")],
    "discinfo.DiscInfo": DISC,
}


def catalogue(cls):
    return CATALOGUE.get(cls, [])


# ---------------------------------------------------------------------------------------------- protocol value helpers
def ptype(j):
    if j is None:
        return "none"
    if isinstance(j, bool):
        return "bool"
    if isinstance(j, int):
        return "int"
    if isinstance(j, str):
        return "str"
    if isinstance(j, list):
        return "list"
    if isinstance(j, dict):
        k = list(j)
        if k == ["$float"]:
            return "float"
        if k == ["$other"]:
            return "other"
        if k == ["$set"]:
            return "set"
        if k == ["$tuple"]:
            return "other"
        return "dict"
    return "other"


def isinst(j, t):
    pt = ptype(j)
    return pt == t or (pt == "bool" and t == "int")


def ptruthy(j):
    pt = ptype(j)
    if pt == "float":
        return float(j["$float"]) != 0.0
    if pt == "other":
        return bool(j["$other"]) if "$other" in j else bool(j["$tuple"])
    if pt == "set":
        return bool(j["$set"])
    return bool(j)


def re_holds(p, s, lenient):
    if not re.match(p, s):
        return False
    if not lenient and p.endswith("$") and s.endswith("\n"):
        return False
    return True


def fmt_scalar(j):
    pt = ptype(j)
    if pt == "none":
        return "None"
    if pt == "bool":
        return "True" if j else "False"
    if pt == "int":
        return str(j)
    if pt == "str":
        return j
    if pt == "float":
        return j["$float"]
    return None


def elems(j):
    pt = ptype(j)
    if pt == "list":
        return list(j)
    if pt == "set":
        return list(j["$set"])
    if isinstance(j, dict) and list(j) == ["$tuple"]:
        return list(j["$tuple"])          # a tuple is iterable like a list (only `_assert_type(list)` tells them apart)
    if pt == "str":
        return list(j)
    if pt == "dict":
        return list(j.keys())
    return None


def cond_holds(c, snap, lenient=False):
    k = c[0]
    if k == "truthy":
        return ptruthy(snap.get(c[1]))
    if k == "notnone":
        return snap.get(c[1]) is not None
    if k == "rematch":
        v = snap.get(c[2])
        return isinstance(v, str) and re.match(c[1], v) is not None
    if k == "startswith":
        v = snap.get(c[1])
        return isinstance(v, str) and v.startswith(c[2])
    if k == "contains":
        v = snap.get(c[1])
        return isinstance(v, str) and c[2] in v
    if k == "not":
        return not cond_holds(c[1], snap)
    if k == "and":
        return cond_holds(c[1], snap) and cond_holds(c[2], snap)
    raise ValueError(c)


def cond_welltyped(c, snap):
    k = c[0]
    if k in ("rematch",):
        return isinstance(snap.get(c[2]), str)
    if k in ("startswith", "contains"):
        return isinstance(snap.get(c[1]), str)
    if k == "not":
        return cond_welltyped(c[1], snap)
    if k == "and":
        return cond_welltyped(c[1], snap) and (not cond_holds(c[1], snap) or cond_welltyped(c[2], snap))
    return True


def custom_holds(name, snap, T, lenient=False):
    if name == "label":
        v = snap.get("label")
        if v is None:
            return True
        if not isinstance(v, str):
            return False
        return any(re_holds(r"^%s-\d+\.\d+$" % n, v, lenient) for n in T["LABEL_NAMES"])
    if name in ("ci_uid", "ti_uid"):
        par, uid, vid = snap.get("parent"), snap.get("uid"), snap.get("id")
        if par is None:
            if name == "ti_uid":
                return True
            return isinstance(uid, str) and uid.replace("-", "") == vid
        pu, i = fmt_scalar(par.get("uid")), fmt_scalar(vid)
        if pu is None or i is None:
            return False
        return uid == "%s-%s" % (pu, i)
    if name == "ci_parent_arch":
        par = snap.get("parent")
        if par is None:
            return True
        mine, theirs = elems(snap.get("arches")), elems(par.get("arches"))
        if mine is None or theirs is None:
            return False
        return all(a in theirs for a in mine)
    if name == "variant_keys":
        vs = snap.get("variants")
        if ptype(vs) != "dict":
            return True
        for key, ch in vs.items():
            k2 = key
            if ch.get("parent_none") and "-" in key and ch.get("type") != "optional":
                k2 = key.replace("-", "")
            if ch.get("id") != k2 and ch.get("uid") != k2:
                return False
        return True
    if name == "disc_timestamp":
        v = snap.get("timestamp")
        return ptype(v) == "float" and ptruthy(v)
    if name == "ti_checksum_paths":
        v = snap.get("checksums")
        if ptype(v) != "dict":
            return ptype(v) in ("other", "set", "list", "str")     # container type is not a catalogue matter; scalars cannot be iterated
        return not any(p.startswith("/") for p in v)
    if name == "ti_image_paths":
        v = snap.get("images")
        if ptype(v) != "dict":
            return True
        for plat, imgs in v.items():
            if ptype(imgs) != "dict":
                return False
            for _, path in imgs.items():
                if not isinstance(path, str) or path.startswith("/"):
                    return False
        return True
    if name == "ti_platforms":
        v, tp = snap.get("images"), elems(snap.get("tree.platforms"))
        if ptype(v) != "dict" or tp is None:
            return True
        return all(p in tp for p in v)
    raise ValueError(name)


def holds(rule, snap, T, lenient=False):
    """does the documented rule hold on the part snapshot (True/False)"""
    k = rule[0]
    if k == "type":
        v = snap.get(rule[1])
        if ptype(v) == "bool" and "bool" not in rule[2]:
            return False                    # documented: an integer (string, ...) field does not hold a bool (F22/F43; `bool <: int` is Python's business)
        return any(isinst(v, t) for t in rule[2])
    if k == "value":
        v = snap.get(rule[1])
        return isinstance(v, str) and v in T[rule[2]]
    if k == "nb":
        return ptruthy(snap.get(rule[1]))
    if k == "re":
        v = snap.get(rule[1])
        return isinstance(v, str) and any(re_holds(p, v, lenient) for p in rule[2])
    if k == "failif":
        return cond_welltyped(rule[1], snap) and not cond_holds(rule[1], snap)
    if k == "guard":
        if not cond_welltyped(rule[1], snap):
            return False
        return holds(rule[2], snap, T, lenient) if cond_holds(rule[1], snap) else True
    if k == "custom":
        return custom_holds(rule[1], snap, T, lenient)
    raise ValueError(rule)


def violated(cls, snap, T, lenient=False):
    """indices of the catalogue rules of the class that do not hold"""
    return [i for i, r in enumerate(catalogue(cls)) if not holds(r, snap, T, lenient)]


# ---------------------------------------------------------------------------------------------- complements
# one value per PyVal constructor AND, systematically, every FALSY value of every type (a validator that tests truthiness where it
# should test `is None` / the type is only visible through them), plus the strings that look like "no value"
FALSY = [None, False, 0, {"$float": "0.0"}, {"$float": "-0.0"}, "", [], {}, {"$set": []}, {"$tuple": []}, {"$other": False}]
TYPE_POOL = FALSY + [True, 7, -3, {"$float": "1.5"}, "x", " ", "None", "null", "0", "False", ["x"], {"a": 1}, {"$other": True}, {"$set": ["zz"]},
                     {"$tuple": ["x"]}]

# the attributes a hand-bound rule reads directly (their generic pool is tried next to the rule-specific corruptions)
CUSTOM_FIELDS = {"label": ["label"], "ci_uid": ["uid", "id"], "ti_uid": ["uid", "id"], "ci_parent_arch": ["arches"], "disc_timestamp": ["timestamp"]}


def rule_fields(rule):
    k = rule[0]
    if k == "custom":
        return list(CUSTOM_FIELDS.get(rule[1], []))
    if k in ("type", "value", "nb", "re"):
        return [rule[1]]
    if k == "guard":
        return rule_fields(rule[2]) + cond_fields(rule[1])
    if k == "failif":
        return cond_fields(rule[1])
    return []


def cond_fields(c):
    k = c[0]
    if k in ("truthy", "notnone", "startswith", "contains"):
        return [c[1]]
    if k == "rematch":
        return [c[2]]
    if k == "not":
        return cond_fields(c[1])
    if k == "and":
        return cond_fields(c[1]) + cond_fields(c[2])
    return []


DELIMS = list("-.:/@,;=#%[]\"'\\ \t") + ["\u00a0"]


def string_neighbours(v, rng):
    """near misses of a valid string: cut, extended, case changed, blanks of every kind around and inside, every delimiter of the formats inserted
    (single and doubled), non-ASCII digits, line feeds, very long, look-alikes of other types"""
    out = []
    if isinstance(v, str) and v:
        i = rng.randrange(len(v))
        d = rng.choice(DELIMS)
        out += [v[:-1], v[1:], v + "x", "x" + v, v + " ", " " + v, v + "\t", "\t" + v, v + "\u00a0", "\u00a0" + v, v[:i] + " " + v[i:],
                v.upper() if v.upper() != v else v.lower(), v.swapcase(), v[:i] + v[i + 1:], v[:i] + "!" + v[i:],
                v + "\n", v + "\n\n", "\n" + v, v + "-", v + ".", v[:i] + d + v[i:], v[:i] + d + d + v[i:], v + d, d + v, v * 2, "/" + v, "//" + v, "./" + v,
                v.replace("1", "\u0661") if "1" in v else v + "\u0661", v + "\uff17", v + "\U0001d518", v + "x" * 300, "None", "null", "0", "False", "1.0"]
    return out


def candidates(rule, snap, T, rng):
    """protocol values for each field the rule reads, not yet filtered"""
    out = []
    for f in rule_fields(rule):
        cur = snap.get(f)
        pool = list(TYPE_POOL) + string_neighbours(cur, rng)
        k = rule[0]
        if k == "value":
            tab = T[rule[2]]
            e, e2 = rng.choice(tab), rng.choice(tab)
            # near misses of EVERY table entry over time, always including the last one: case, blank, proper prefix, extension, two entries glued
            pool += ["floppy", e.upper(), e.capitalize(), e + " ", " " + e, e[:-1], e + "x", e + "-" + e2, e + e2, tab[-1][:-1], tab[-1] + "x", tab[-1].upper(),
                     e.replace("-", "_"), e.replace("-", "")]
        if k == "re" or (k == "guard" and rule[2][0] == "re"):
            pool += ["2015", "1", "1.x", "1.2.3", "a" * 32, "A" * 32, "0" * 31, "0" * 33, "20200101x", "x-y", "1.", ".1", "1..2", "1.2\n"]
        if f in ("additional_variants",):
            pool += [["A"], ["A", "B"]]
        if f in ("mainimage",):
            pool += ["/abs/img", "/"]
        for v in pool:
            out.append((f, v))
    return out


# ---------------------------------------------------------------------------------------------- what changed in the source?
CUSTOM_FULL = {"label": "composeinfo.Compose._validate_label:verify_label(self.label)", "ci_uid": "composeinfo.Variant._validate_uid",
               "ci_parent_arch": "composeinfo.Variant._validate_parent_arch", "variant_keys": "composeinfo.VariantBase._validate_variants",
               "disc_timestamp": "discinfo.DiscInfo._validate_timestamp", "ti_checksum_paths": "treeinfo.Checksums._validate_checksum_paths",
               "ti_image_paths": "treeinfo.Images._validate_image_paths", "ti_platforms": "treeinfo.Images._validate_platforms",
               "ti_uid": "treeinfo.Variant._validate_uid"}


def _norm_cond(c):
    k = c["k"]
    if k in ("truthy", "notNone"):
        return [k.lower(), c["f"]]
    if k == "reMatch":
        return ["rematch", c["p"], c["f"]]
    if k == "startsWith":
        return ["startswith", c["f"], c["pre"]]
    if k == "contains":
        return ["contains", c["f"], c["c"]]
    if k == "not":
        return ["not", _norm_cond(c["c"])]
    if k == "and":
        return ["and", _norm_cond(c["a"]), _norm_cond(c["b"])]
    return ["?", c]


def norm_generated(j):
    """a rule of generated.json -> comparable form"""
    k = j["k"]
    if k == "type":
        return ["type", j["f"], list(j["types"])]
    if k == "value":
        return ["value", j["f"], list(j["table"])]
    if k == "notBlank":
        return ["nb", j["f"]]
    if k == "re":
        return ["re", j["f"], list(j["patterns"])]
    if k == "failIf":
        return ["failif", _norm_cond(j["c"])]
    if k == "guarded":
        return ["guard", _norm_cond(j["c"]), norm_generated(j["r"])]
    if k == "custom":
        return ["custom", j["name"]]
    return ["?", j]


def norm_catalogue(r, T):
    def cond(c):
        c = list(c)
        if c[0] in ("not",):
            return ["not", cond(c[1])]
        if c[0] == "and":
            return ["and", cond(c[1]), cond(c[2])]
        return c
    k = r[0]
    if k == "type":
        return ["type", r[1], list(r[2])]
    if k == "value":
        return ["value", r[1], list(T[r[2]])]
    if k in ("nb",):
        return ["nb", r[1]]
    if k == "re":
        return ["re", r[1], list(r[2])]
    if k == "failif":
        return ["failif", cond(r[1])]
    if k == "guard":
        return ["guard", cond(r[1]), norm_catalogue(r[2], T)]
    if k == "custom":
        return ["custom", CUSTOM_FULL[r[1]]]
    return ["?"]


def suspects(generated, T):
    """(class, rule) pairs of the catalogue that the validator inventory regenerated from the source no longer contains verbatim:
    where a failing input has to be looked for first (DESIGN section 6: targeted generators derived from what changed)"""
    out = []
    classes = (generated.get("validators") or {}).get("classes", {})
    for cls, rules in CATALOGUE.items():
        gen = [norm_generated(j) for m in classes.get(cls, []) for j in m["rules"]]
        for r in rules:
            if norm_catalogue(r, T) not in gen:
                out.append((cls, r))
    return out
