"""
C17, last sentence: "a pre-productmd reader given only the compatibility sections sees the same tree".

Stand-in for a pre-productmd reader: the library's own reader for files WITHOUT [header] (it then assumes version 0.0).
This adapter
  * restricts a written text to the sections a pre-productmd file has ([general], [stage2], [checksums], [images-*]) with a
    line reader that is independent of configparser and of the model (`compat_text`);
  * generates trees that exercise what the 0.0 reader looks at (`gen`): family names of its table, versions with dashes,
    RHEL 5 `Server`/`Client`, architectures named like a kept section, paths with trailing slashes / `/repodata` / absolute
    paths, float timestamps below 1, integer timestamps beyond 2^53, dashed main variants;
  * states, component by component and from the property text plus the documented 0.0 rules (doc/treeinfo-1.0.rst,
    "pre-productmd treeinfo"), what "the same tree" requires of the result (`expect`) - written without the model.
"""
import re
from formats import treeinfo as TF

COMPAT = ("general", "stage2", "checksums")


def is_compat(name):
    return name in COMPAT or name.startswith("images-")


def compat_text(text):
    """keep exactly the lines of the kept sections; the writer's layout: `[name]` header lines, `key = value`, blank lines"""
    out, keep = [], False
    for line in text.split("\n"):
        if line.startswith("[") and line.endswith("]"):
            keep = is_compat(line[1:-1])
        if keep:
            out.append(line)
    return "\n".join(out) + ("\n" if out and out[-1] != "" else "")


# ------------------------------------------------------------------------------------------------ generator
FAMILIES = ["Fedora", "Fedora Server", "Fedora-Rawhide", "Red Hat Enterprise Linux", "Red Hat Enterprise Linux Server",
            "Red Hat Enterprise Linux Client", "CentOS", "CentOS Stream", "EulerOS V2.0SP5", "JBEAP", "Subscription Asset Manager",
            "Red Hat Storage", "Red Hat Storage Software Appliance", "Foo", "fedora", "Red Hat", "Scientific Linux"]
VERSIONS = ["5.3", "5.0", "5", "5.11", "6.1", "3.9", "4.8", "21", "7.0-Beta", "Beta-1", "1_2", "Rawhide", "2-x-3.1", "-", "_", "1.",
            "٣", "5.0-Beta_2", "x-5.1", "50", "Beta-1_2", "x-5.1-6", "rc_3-4.1", "a-1-b-2", "Beta-5.2_6", "b_5-x"]
RHEL5_ARCHES = ["i386", "ia64", "x86_64", "ppc", "s390x", "ppc64"]
COMPAT_ARCHES = ["general", "stage2", "checksums", "images-xen", "images-"]
LEGACY_PATHS = ["repo/", "repo//", "x/repodata", "repodata", "/repodata", "x/repodata/", ".", "", "./", "Packages", "/abs/Packages", "/",
                "os/Packages", "a b"]
ABS_PATHS = ["/mnt/os/images/boot.iso", "/abs/path", "//x", "/os/", "/a/os/b/os/c", "/os/images/install.img", "/"]


def gen(rng, tier, i):
    """-> (spec, main_variant, class name)"""
    cls = ["plain", "family", "version", "rhel5", "paths", "abs-paths", "float-ts", "big-ts", "compat-arch", "dashed-main",
           "class-of-C04"][i % 11]
    spec, mv = TF.gen(rng, tier, float_ts=(cls == "float-ts"))
    keys = [v["key"] for v in spec["variants"]]
    mv = rng.choice([None] + keys)
    top = spec["variants"][0]
    if cls == "class-of-C04":
        c = TF.CLASSES[(i // 11) % len(TF.CLASSES)]
        spec, mv = TF.gen_class(rng, c, tier, float_ts=False)
        return spec, mv, "C04:" + c
    if cls in ("family", "rhel5", "paths") or rng.random() < 0.3:
        spec["release"]["name"] = rng.choice(FAMILIES)
    if cls in ("version", "rhel5") or rng.random() < 0.3:
        spec["release"]["version"] = rng.choice(VERSIONS)
    if cls == "rhel5":
        spec["release"]["name"] = rng.choice(FAMILIES[3:6])
        spec["release"]["version"] = rng.choice(["5.3", "5.0", "5", "5.11", "5.0-Beta", "6.1", "4.8", "50"])
        arch = rng.choice(RHEL5_ARCHES)
        spec["tree"]["arch"] = arch
        spec["tree"]["platforms"] = sorted(set(spec["tree"]["platforms"]))
        spec["images"] = [[p, im] for p, im in spec["images"] if not p.endswith("-" + arch)]
        for v, want in zip(spec["variants"], rng.sample(["Server", "Client", "Workstation"], min(3, len(spec["variants"])))):
            if "-" not in v["uid"] and want not in [x["uid"] for x in spec["variants"]]:
                _rename_top(v, want)
        mv = rng.choice([None] + [v["key"] for v in spec["variants"]])
    if cls == "paths" or rng.random() < 0.2:
        for v in spec["variants"]:
            for f in (("packages", "repository") if spec["tree"]["arch"] != "src" or rng.random() < 0.5
                      else ("source_packages", "source_repository")):
                if rng.random() < 0.8:
                    TF._set_path(v, f, rng.choice(LEGACY_PATHS))
    if cls == "abs-paths":
        # validate() refuses absolute checksum / image / mainimage paths on write; instimage is not validated, so that is the
        # absolute path a written file can carry (the 0.0 reader cuts it: `_fix_path`)
        where = rng.choice(["instimage", "instimage", "instimage", "checksums", "images", "mainimage", "all"])
        if where in ("checksums", "all"):
            if spec["checksums"]:
                spec["checksums"][0][0] = rng.choice(ABS_PATHS)
            else:
                spec["checksums"] = [[rng.choice(ABS_PATHS), "sha256", "00"]]
        if where in ("images", "all"):
            for p, imgs in spec["images"]:
                for kv in imgs:
                    if rng.random() < 0.5:
                        kv[1] = rng.choice(ABS_PATHS)
        if where in ("mainimage", "all"):
            spec["stage2"]["mainimage"] = rng.choice(ABS_PATHS)
        if where in ("instimage", "all"):
            spec["stage2"]["instimage"] = rng.choice(ABS_PATHS)
            if rng.random() < 0.5:
                spec["stage2"]["mainimage"] = rng.choice(["LiveOS/squashfs.img", None])
    if cls == "big-ts":
        spec["tree"]["build_timestamp"] = rng.choice([2 ** 53 + 1, -(2 ** 53) - 1, 2 ** 60 + 1, 10 ** 30, 2 ** 53, 2 ** 53 - 1])
    if cls == "compat-arch":
        old = spec["tree"]["arch"]
        arch = rng.choice(COMPAT_ARCHES)
        spec["tree"]["arch"] = arch
        spec["tree"]["platforms"] = sorted(set(p for p in spec["tree"]["platforms"] if p != old) | {arch})
        spec["images"] = [[(arch if p == old else p), im] for p, im in spec["images"]]
    if cls == "dashed-main":
        names = [v["uid"] for v in spec["variants"] if "-" in v["uid"]]
        for v in spec["variants"]:
            for c in v["variants"]:
                names.append(v["key"] + "-" + c["key"])
        if names:
            mv = rng.choice(names)
    return spec, mv, cls


def _rename_top(v, new):
    old = v["uid"]

    def fix(x, parent_old, parent_new):
        if x["uid"].startswith(parent_old + "-"):
            x["uid"] = parent_new + x["uid"][len(parent_old):]
        for c in x["variants"]:
            fix(c, parent_old, parent_new)
    for c in v["variants"]:
        fix(c, old, new)
    v["id"] = v["uid"] = v["key"] = new


# ------------------------------------------------------------------------------------------------ what "the same tree" requires
PREFIX_FAMILIES = ["Red Hat Enterprise Linux", "Fedora", "CentOS", "EulerOS"]
SHORTS = {"Red Hat Enterprise Linux": "RHEL", "Fedora": "Fedora", "CentOS": "CentOS", "EulerOS": "EulerOS",
          "Subscription Asset Manager": "SAM", "Red Hat Storage": "RHS", "JBEAP": "JBEAP", "Red Hat Storage Software Appliance": "SSA"}


def family_of(name):
    """the family table of pre-productmd files: products whose family string carried the variant ("Fedora Server",
    "Red Hat Enterprise Linux Client") are known by their family name"""
    for p in PREFIX_FAMILIES:
        if name.startswith(p):
            return p
    return name


def version_of(version):
    """pre-productmd versions carried a milestone ("7.0-Beta", "Beta-1"): the last dotted number between - / _ is the version"""
    out = version
    for part in re.split(r"[-_]", version):
        if re.match(r"^\d+(\.\d+)*$", part):
            out = part
    return out


def platform_of(section, arch):
    p = section[len("images-"):]
    if p != arch and p.endswith("-" + arch):
        p = p[:-len(arch) - 1]
    return p


def facts(spec, mv):
    """the facts of the input the expectations and the known-finding predicates speak about"""
    t = spec["tree"]
    ts = TF.ts_value(t["build_timestamp"])
    keys = sorted(v["key"] for v in spec["variants"])
    key = mv if mv is not None else keys[0]
    name = family_of(spec["release"]["name"])
    version = version_of(spec["release"]["version"])
    rel = [c[0] for c in spec["checksums"]] + [kv[1] for _, im in spec["images"] for kv in im] + \
          [p for p in (spec["stage2"]["mainimage"], spec["stage2"]["instimage"]) if p]
    return {"general_variant": key, "int_timestamp": int(ts), "arch": t["arch"], "family": name, "short": SHORTS.get(name, ""),
            "version": version, "arch_is_kept_section": is_compat(t["arch"]),
            "absolute_paths": sorted(p for p in rel if p.startswith("/")),
            "rhel5_table": SHORTS.get(name) == "RHEL" and version.split(".")[0] == "5"}


def expect(spec, mv):
    """-> (must_load, {component: required value}) for the tree the 0.0 reader builds from the compatibility sections.
    A component is listed only where the property (plus the documented 0.0 rules) determines it:
      arch, integer timestamp (within 2^53: the reader goes through float), platforms = architecture + platforms with images,
      release name / version through the family table / milestone rule, exactly one variant called like [general] variant
      (no children unless the RHEL 5 addon table applies), its paths from [general] packagedir / repository outside the
      RHEL / Fedora layouts, checksums / images / stage2 as the current reader returns them (an absolute instimage repaired), no media."""
    f = facts(spec, mv)
    key, arch = f["general_variant"], f["arch"]
    g = TF.expected_general(spec, mv)
    must_load = not (f["arch_is_kept_section"] or key == "")
    want = {"arch": arch, "release.name": f["family"], "release.short": f["short"], "release.version": f["version"],
            "media": {"discnum": None, "totaldiscs": None}}
    if not f["arch_is_kept_section"]:
        want["platforms"] = sorted({arch} | set(platform_of("images-" + p, arch) for p, _ in spec["images"]))
    if -2 ** 53 <= f["int_timestamp"] <= 2 ** 53:
        want["build_timestamp"] = f["int_timestamp"]
    want["variant.names"] = [[key, key, key, key, "variant"]]
    if not f["rhel5_table"]:
        want["variant.children"] = []
    if f["short"] not in ("RHEL", "Fedora"):
        repo = (g.get("repository") if g.get("repository") is not None else ".").rstrip("/") or "."
        if repo.endswith("/repodata"):
            repo = repo[:-len("/repodata")]
        pk = ((g["packagedir"] if g.get("packagedir") is not None else repo) or "").rstrip("/") or "."
        want["variant.paths"] = ([["source_packages", pk], ["source_repository", repo]] if arch == "src"
                                 else [["packages", pk], ["repository", repo]])
    # validate() refuses absolute checksum / image / mainimage paths on write, so in a written file only instimage can be
    # absolute; pre-productmd files carried absolute paths and the documented repair is: keep what follows the first "/os/",
    # else drop the leading slashes
    n = TF.canon_spec(TF.norm_spec(spec), with_parent=False)
    want["checksums"], want["images"] = n["checksums"], n["images"]
    want["stage2"] = dict(n["stage2"], instimage=fix_path(n["stage2"]["instimage"]))
    return must_load, want


def fix_path(path):
    if path and path.startswith("/"):
        if "/os/" in path:
            return path[path.find("/os/") + 4:]
        return path.lstrip("/")
    return path


def observe(snap):
    """the same components of a snapshot (`TF.snap`) of the loaded tree"""
    vs = snap["variants"]
    out = {"arch": snap["tree"]["arch"], "release.name": snap["release"]["name"], "release.short": snap["release"]["short"],
           "release.version": snap["release"]["version"], "media": snap["media"], "platforms": snap["tree"]["platforms"],
           "build_timestamp": snap["tree"]["build_timestamp"],
           "variant.names": [[v["key"], v["id"], v["uid"], v["name"], v["type"]] for v in vs],
           "variant.children": [c["uid"] for v in vs for c in v["variants"]],
           "variant.paths": vs[0]["paths"] if len(vs) == 1 else [v["paths"] for v in vs],
           "checksums": snap["checksums"], "images": snap["images"], "stage2": snap["stage2"]}
    return out
