"""
Shared real-side adapter for .discinfo (C04, C05, C06, C07, C18).

spec: {"timestamp": {"$float": repr} | any JSON value, "description": str, "arch": str, "disc_numbers": ["ALL"] | [int..]}
gen(rng, tier) -> spec   build(spec) -> real DiscInfo   snap(obj) -> spec
"""
import io, math, struct
import checklib
from formats.treeinfo import err_name, float_entry, guarded  # noqa: F401

ARCHES = ["x86_64", "ppc64le", "aarch64", "s390x", "i386", "src", "armhfp"]
DESCRIPTIONS = ["Fedora 20", "Red Hat Enterprise Linux 7.1", "a", "100% pure", "x = y", "# not a comment", "it's", 'say "hi" now',
                "é ü", "Fedora  21   Server", "1", "ALL", "a,b", "tab\there", "[x]", "; semi",
                "Fedora ;Server", "a #b", "a ; b", "a;b", "x: y", "%(a)s", "%%", "trailing\\", "nb\u00a0sp", "L" + "o" * 3000 + "ng"]
SIMPLE_TS = [1417653911.123456, 1.0, 0.5, -3.25, 1e22, 1.5e-7, 123456789.0, 2.0 ** 53, 1e300, 5e-324, 1417653911.0]


# audit additions: delimiters and doubled forms, quotes INSIDE, non-ASCII digits, astral, type-like values
DESCRIPTIONS += ["a@b", "a,,b", "a--b", "a..b", "a::b", "a//b", "a;;b", "a==b", "a##b", 'in "the" middle', "mid'dle", "\u0663\uff17", "\U0001F600 x",
                 "None", "null", "0", "False", "1.0", "a  b", "x ;y", "x #y", "[s]", "k = v"]
ARCHES += ["ppc", "ppc64", "my arch", "SRC", "a;b", "\u00e9"]
DISC_POOL = [[1], [0], [-1], [1, 2, 3], [3, 2, 1], [10, 11], [1, 1], [2 ** 31], [2 ** 32 + 7], [2 ** 53 + 1], [2 ** 63 - 1], [10 ** 7, 10 ** 8], [7] * 40, ["ALL"]]
SIMPLE_TS += [-1.0, 1.5, 2.5, -0.5, 2.0 ** 31, 2.0 ** 32 + 7, 2.0 ** 53 + 2, 2.0 ** 63, 1e7, 1e8, 1e16, 123456789.987654321, 1e-5, 0.1, -1e-300]


def mod():
    checklib.use_repo()
    import productmd.discinfo
    return productmd.discinfo


def random_float(rng):
    """a finite non-zero double from a random bit pattern"""
    while True:
        x = struct.unpack("<d", struct.pack("<Q", rng.getrandbits(64)))[0]
        if math.isfinite(x) and x != 0.0:
            return x


def gen(rng, tier="quick"):
    ts = rng.choice(SIMPLE_TS) if rng.random() < 0.4 else random_float(rng)
    if rng.random() < 0.3:
        discs = ["ALL"]
    else:
        discs = [rng.choice([1, 2, 3, 10, 0, -1, 2 ** 40, rng.randint(1, 99)]) for _ in range(rng.randint(1, 5))]
    return {"timestamp": {"$float": repr(ts)}, "description": rng.choice(DESCRIPTIONS), "arch": rng.choice(ARCHES), "disc_numbers": discs}


def build(spec):
    D = mod()
    di = D.DiscInfo()
    t = spec["timestamp"]
    di.timestamp = float(t["$float"]) if isinstance(t, dict) else t
    di.description = spec["description"]
    di.arch = spec["arch"]
    di.disc_numbers = list(spec["disc_numbers"])
    return di


def snap(di):
    t = di.timestamp
    return {"timestamp": {"$float": repr(t)} if isinstance(t, float) else t, "description": di.description, "arch": di.arch,
            "disc_numbers": list(di.disc_numbers)}


def dumps(di):
    f = io.StringIO()
    di.dump(f)
    return f.getvalue()


def loads(text):
    D = mod()
    di = D.DiscInfo()
    di.loads(text)
    return di


def floats_for(spec):
    t = spec["timestamp"]
    s = (t["$float"] if isinstance(t, dict) else str(t)).strip()
    return {s: float_entry(s)}


def model_spec(spec):
    """the wire form of Driver/OpsTreeInfo.lean (timestamp as its repr)"""
    t = spec["timestamp"]
    return dict(spec, timestamp=t["$float"] if isinstance(t, dict) else str(t))
