"""Shared pieces of the three payload-verbatim manifest adapters (rpms / modules / extra_files):
protocol encoding of real values, compose section generator, pools built from the library's own tables."""
import copy
import checklib


def lib():
    checklib.use_repo()
    import productmd.common, productmd.rpms, productmd.modules, productmd.extra_files, productmd.composeinfo
    return productmd


def enc(x):
    """real Python value -> protocol JSON (what the Lean driver's `toPy`/`ofPy` speak); strict about types:
    a tuple, a set, a non-string key or a foreign object stays visible"""
    if x is None or isinstance(x, (bool, str)):
        return x
    if isinstance(x, int):
        return x
    if isinstance(x, float):
        return {"$float": repr(x)}
    if isinstance(x, list):
        return [enc(v) for v in x]
    if isinstance(x, tuple):
        return {"$tuple": [enc(v) for v in x]}
    if isinstance(x, dict):
        out = {}
        for k, v in x.items():
            out[k if isinstance(k, str) else "$key:%r" % (k,)] = enc(v)
        return out
    return {"$other": bool(x), "$type": type(x).__name__}


def json_closed(x):
    """only what json.dump can write and json.load gives back unchanged"""
    if x is None or isinstance(x, (bool, str, int, float)):
        return True
    if isinstance(x, list):
        return all(json_closed(v) for v in x)
    if isinstance(x, dict):
        return all(isinstance(k, str) and json_closed(v) for k, v in x.items())
    return False


def arches(valid=True):
    pm = lib()
    a = list(pm.common.RPM_ARCHES)
    return [x for x in a if x not in ("src", "nosrc")] if valid else a


VARIANTS = ["Server", "Client", "Workstation", "Server-optional", "Server-HighAvailability", "AppStream", "BaseOS"]
BAD_ARCHES = ["x86", "", "X86_64", "i387", "x86_64 ", "amd65"]
BAD_CATEGORIES = ["package", "Binary", "", "src", "sources"]
LABELS = ["EA", "DevelPhaseExit", "InternalAlpha", "Alpha", "InternalSnapshot", "Beta", "Snapshot", "RC", "Update", "SecurityFix"]


def gen_compose(rng):
    pm = lib()
    ctype = rng.choice(list(pm.composeinfo.COMPOSE_TYPES))
    date = "%04d%02d%02d" % (rng.randint(1999, 2030), rng.randint(1, 12), rng.randint(1, 28))
    respin = rng.choice([0, 1, 2, 10, 123])
    suffix = {"production": "", "ci": ".ci", "nightly": ".n", "test": ".t", "development": ".d"}.get(ctype, "")
    cid = "%s-%s-%s%s.%d" % (rng.choice(["Fedora", "RHEL", "my-prod"]), rng.choice(["23", "7.2", "Rawhide"]), date, suffix, respin)
    label = None
    final = False
    if rng.random() < 0.4:
        label = "%s-%d.%d" % (rng.choice(LABELS), rng.randint(0, 12), rng.randint(0, 9))
        final = rng.random() < 0.5
    elif rng.random() < 0.1:
        final = True                      # final without a label: not written, read back as False (documented)
    return {"id": cid, "type": ctype, "date": date, "respin": respin, "label": label, "final": final}


def apply_compose(obj, c):
    for k in ("id", "type", "date", "respin", "label", "final"):
        setattr(obj.compose, k, c[k])


def snap_compose(obj):
    c = obj.compose
    return dict((k, enc(getattr(c, k))) for k in ("id", "type", "date", "respin", "label", "final"))


def snap_manifest(obj, mapping):
    return {"version": enc(obj.header.version), "compose": snap_compose(obj), "payload": enc(mapping)}


def norm_compose(c):
    """what a write/read cycle is documented to do to the compose section"""
    c = dict(c)
    if not c.get("label"):
        c["label"] = None
        c["final"] = False
    return c


def rel_spec(path, base):
    """the documented meaning of `_relative_to`: strip `base` only on a path-component boundary"""
    b = base
    while b.endswith("/"):
        b = b[:-1]
    if path[:len(b)] == b and path[len(b):len(b) + 1] == "/":
        return path[len(b) + 1:]
    return path


def mutate_str(rng, s, alphabet=":-./ \nA1z"):
    s = list(s)
    for _ in range(rng.randint(1, 2)):
        r = rng.random()
        if s and r < 0.35:
            del s[rng.randrange(len(s))]
        elif s and r < 0.5:
            i = rng.randrange(len(s)); s[i] = rng.choice(alphabet)
        else:
            s.insert(rng.randint(0, len(s)), rng.choice(alphabet))
    return "".join(s)


READONLY = ("dump_for_tree", "getitem", "dumps")


def apply_call(obj, add, op):
    """one call of a history: `add` (default) or a read-only operation driven between the adds"""
    call = op.get("call", "add")
    if call == "dump_for_tree":
        import io
        out = io.StringIO()
        obj.dump_for_tree(out, op["variant"], op["arch"], op["basepath"])
        return out.getvalue()
    if call == "getitem":
        return enc(obj[op["variant"]])
    if call == "dumps":
        return obj.dumps()
    add(obj, op)
    return None


def run_trace(obj, mapping_of, add, ops):
    """apply `ops` one by one to the real object; after each: outcome and a deep snapshot of the WHOLE mapping"""
    steps = []
    for op in ops:
        try:
            out = {"ok": apply_call(obj, add, op)}
        except Exception as e:  # noqa
            out = {"err": type(e).__name__}
        steps.append({"out": out, "state": enc(mapping_of(obj))})
    return steps


def interleave_readonly(rng, ops, kind, bases):
    """insert read-only calls (exports with matching / non-matching / textually-prefixing bases, item reads, dumps)
    between the adds of a history"""
    out, seen = [], []
    for op in ops:
        out.append(op)
        seen.append(op)
        if rng.random() < 0.22:
            ref = rng.choice(seen)
            r = rng.random()
            if kind == "extra_files" and r < 0.7:
                out.append(tree_call(rng, ref, bases))
            elif r < 0.9:
                out.append({"call": "getitem", "variant": ref["variant"] if rng.random() < 0.85 else "Nope", "why": "getitem"})
            else:
                out.append({"call": "dumps", "why": "dumps"})
    if kind == "extra_files" and seen and rng.random() < 0.5:
        ref = rng.choice(seen)
        out.append(tree_call(rng, ref, bases, force="match"))            # an export whose base really strips …
        out.append(tree_call(rng, ref, bases, force="shorter"))          # … then another one with a different base
        if rng.random() < 0.5:
            out.append({"call": "dumps", "why": "dumps"})
    return out


def tree_call(rng, ref, bases, force=None):
    path = ref.get("path") or ""
    dirs = path.split("/")[:-1]
    r = rng.random()
    if force == "match" or (force is None and r < 0.45):
        n = rng.randint(1, len(dirs)) if (force == "match" and dirs) else rng.randint(0, len(dirs))
        base = "/".join(dirs[:n]) + rng.choice(["", "/", "//"])
        why = "tree:prefix"
    elif force == "shorter":
        base = "/".join(dirs[:max(0, len(dirs) - 1)])
        why = "tree:shorter"
    elif r < 0.65 and dirs:
        base = "/".join(dirs)[:-1]                                          # only a textual prefix
        why = "tree:textual"
    else:
        base = rng.choice(bases)
        why = "tree:pool"
    return {"call": "dump_for_tree", "variant": ref["variant"] if rng.random() < 0.9 else "Nope",
            "arch": ref["arch"] if rng.random() < 0.9 else "s390x", "basepath": base, "why": why}
