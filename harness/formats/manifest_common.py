"""Shared pieces of the three payload-verbatim manifest adapters (rpms / modules / extra_files):
protocol encoding of real values, compose section generator, pools built from the library's own tables."""
import copy
import checklib


def lib():
    checklib.use_repo()
    import productmd.common, productmd.rpms, productmd.modules, productmd.extra_files, productmd.composeinfo
    return productmd


def enc(x):
    """real Python value -> protocol JSON (what the Lean driver's `toPy`/`ofPy` speak); strict about types:
    a tuple, a set, a non-string key or a foreign object stays visible"""
    if x is None or isinstance(x, (bool, str)):
        return x
    if isinstance(x, int):
        return x
    if isinstance(x, float):
        return {"$float": repr(x)}
    if isinstance(x, list):
        return [enc(v) for v in x]
    if isinstance(x, tuple):
        return {"$tuple": [enc(v) for v in x]}
    if isinstance(x, dict):
        out = {}
        for k, v in x.items():
            out[k if isinstance(k, str) else "$key:%r" % (k,)] = enc(v)
        return out
    return {"$other": bool(x), "$type": type(x).__name__}


def json_closed(x):
    """only what json.dump can write and json.load gives back unchanged"""
    if x is None or isinstance(x, (bool, str, int, float)):
        return True
    if isinstance(x, list):
        return all(json_closed(v) for v in x)
    if isinstance(x, dict):
        return all(isinstance(k, str) and json_closed(v) for k, v in x.items())
    return False


def arches(valid=True):
    pm = lib()
    a = list(pm.common.RPM_ARCHES)
    return [x for x in a if x not in ("src", "nosrc")] if valid else a


VARIANTS = ["Server", "Client", "Workstation", "Server-optional", "Server-HighAvailability", "AppStream", "BaseOS"]
# audit A1/A2/A4/A5: blanks, delimiters, case variants of the SAME name, non-ASCII / astral, long, type look-alikes
VARIANTS_EXOTIC = ["server", "SERVER", "Server Optional", " Server", "Ser\tver", "Ser\u00a0ver", "S\u00e9rv\u00e9r", "\u540d\u524d", "\U0001f600",
                   "None", "null", "0", "False", "1.0", "a/b", "a.b:c@d,e;f=g#h%i[j]", 'q"uo\'te\\', "x" * 300, "Server--optional"]
BAD_ARCHES = ["x86", "", "X86_64", "i387", "x86_64 ", "amd65",
              # audit C2/A7: proper prefixes and extensions of table entries and of the literals in the code
              "sr", "srcx", "nosr", "nosrcx", "ppc6", "ppc64l", "ppc64lee", "noarc", "noarchh", " x86_64", "x86-64"]
BAD_CATEGORIES = ["package", "Binary", "", "src", "sources", "sourc", "sourcee", "binar", "debugg", "Source", " source", "binary "]
_RR = {"arch": 0, "ctype": 0, "label": 0}


def reset_round_robin():
    for k in _RR:
        _RR[k] = 0


def next_arches(n, valid=True):
    """audit A7: `n` consecutive table entries from a rotating index, so that every value (the LAST one included) is used"""
    a = arches(valid)
    out = [a[(_RR["arch"] + i) % len(a)] for i in range(n)]
    _RR["arch"] += n
    return out


def pick_variants(rng, n):
    """mostly the plain names; sometimes exotic ones, with a case variant of a name already chosen (audit A4)"""
    out = rng.sample(VARIANTS, n)
    if rng.random() < 0.25:
        out[rng.randrange(n)] = rng.choice(VARIANTS_EXOTIC)
    if rng.random() < 0.15:
        out.append(rng.choice([out[0].lower(), out[0].upper(), out[0].swapcase()]))
    return out
LABELS = ["EA", "DevelPhaseExit", "InternalAlpha", "Alpha", "InternalSnapshot", "Beta", "Snapshot", "RC", "Update", "SecurityFix"]


RESPINS = [0, 1, 2, 10, 123, 10 ** 7, 10 ** 8, 2 ** 31, 2 ** 63 - 1, -1]      # audit A6 (no bool: refused by the repaired _assert_type, F22/F43; C06 probes it)


def gen_compose(rng):
    pm = lib()
    types = list(pm.composeinfo.COMPOSE_TYPES)
    ctype = types[_RR["ctype"] % len(types)]                    # audit A7: round-robin, not sampled
    _RR["ctype"] += 1
    date = "%04d%02d%02d" % (rng.randint(1999, 2030), rng.randint(1, 12), rng.randint(1, 28))
    if rng.random() < 0.04:
        date = date.translate(dict((48 + i, 0xFF10 + i) for i in range(10)))      # audit A5: `\d` also takes non-ASCII digits
    respin = rng.choice([0, 1, 2, 10, 123]) if rng.random() < 0.8 else rng.choice(RESPINS)
    suffix = {"production": "", "ci": ".ci", "nightly": ".n", "test": ".t", "development": ".d"}.get(ctype, "")
    cid = "%s-%s-%s%s.%d" % (rng.choice(["Fedora", "RHEL", "my-prod"]), rng.choice(["23", "7.2", "Rawhide"]), date, suffix, respin)
    r = rng.random()
    if r < 0.08:        # audit A9: the id is free text around 8 digits - decoupled from date / type / respin
        cid = rng.choice(["Other 23 \u2013 19990101", "x" * 300 + "20000229.n.7", "\U0001f600-20201231.t.10", 'q"uo\\te-20101010', "12345678"])
    label = None
    final = False
    if rng.random() < 0.4:
        label = "%s-%d.%d" % (LABELS[_RR["label"] % len(LABELS)], rng.choice([0, 1, 7, 10, 12, 123]), rng.choice([0, 1, 9, 10, 25]))
        _RR["label"] += 1
        final = rng.random() < 0.5
    elif rng.random() < 0.1:
        final = True                      # final without a label: not written, read back as False (documented)
    return {"id": cid, "type": ctype, "date": date, "respin": respin, "label": label, "final": final}


def apply_compose(obj, c):
    for k in ("id", "type", "date", "respin", "label", "final"):
        setattr(obj.compose, k, c[k])


def snap_compose(obj):
    c = obj.compose
    return dict((k, enc(getattr(c, k))) for k in ("id", "type", "date", "respin", "label", "final"))


def snap_manifest(obj, mapping):
    return {"version": enc(obj.header.version), "compose": snap_compose(obj), "payload": enc(mapping)}


def norm_compose(c):
    """what a write/read cycle is documented to do to the compose section"""
    c = dict(c)
    if not c.get("label"):
        c["label"] = None
        c["final"] = False
    return c


def rel_spec(path, base):
    """the documented meaning of `_relative_to`: strip `base` only on a path-component boundary"""
    b = base
    while b.endswith("/"):
        b = b[:-1]
    if path[:len(b)] == b and path[len(b):len(b) + 1] == "/":
        return path[len(b) + 1:]
    return path


def mutate_str(rng, s, alphabet=":-./ \nA1z"):
    s = list(s)
    for _ in range(rng.randint(1, 2)):
        r = rng.random()
        if s and r < 0.35:
            del s[rng.randrange(len(s))]
        elif s and r < 0.5:
            i = rng.randrange(len(s)); s[i] = rng.choice(alphabet)
        else:
            s.insert(rng.randint(0, len(s)), rng.choice(alphabet))
    return "".join(s)


READONLY = ("dump_for_tree", "getitem", "dumps", "validate")


def apply_call(obj, add, op):
    """one call of a history: `add` (default) or a read-only operation driven between the adds"""
    call = op.get("call", "add")
    if call == "dump_for_tree":
        import io
        out = io.StringIO()
        obj.dump_for_tree(out, op["variant"], op["arch"], op["basepath"])
        return out.getvalue()
    if call == "getitem":
        return enc(obj[op["variant"]])
    if call == "dumps":
        return obj.dumps()
    if call == "validate":
        obj.validate()
        obj.header.validate()
        return None
    add(obj, op)
    return None


def run_trace(obj, mapping_of, add, ops, twin=None):
    """apply `ops` one by one to the real object; after each: outcome and a deep snapshot of the WHOLE mapping.
    With `twin` (a second object of the same class, audit B1) every call is also made on the twin, interleaved; the
    first step at which the two objects differ is recorded in the step (`twin_differs`)."""
    steps = []
    for op in ops:
        try:
            out = {"ok": apply_call(obj, add, op)}
        except Exception as e:  # noqa
            out = {"err": type(e).__name__}
        st = {"out": out, "state": enc(mapping_of(obj))}
        if twin is not None:
            try:
                out2 = {"ok": apply_call(twin, add, op)}
            except Exception as e:  # noqa
                out2 = {"err": type(e).__name__}
            if out2 != out or enc(mapping_of(twin)) != st["state"]:
                st["twin_differs"] = {"out": out2, "state": enc(mapping_of(twin))}
        steps.append(st)
    return steps


def interleave_readonly(rng, ops, kind, bases):
    """insert read-only calls (exports with matching / non-matching / textually-prefixing bases, item reads, dumps)
    between the adds of a history"""
    out, seen = [], []
    for op in ops:
        out.append(op)
        seen.append(op)
        if rng.random() < 0.22:
            ref = rng.choice(seen)
            r = rng.random()
            if kind == "extra_files" and r < 0.7:
                out.append(tree_call(rng, ref, bases))
            elif r < 0.8:
                out.append({"call": "getitem", "variant": ref["variant"] if rng.random() < 0.85 else "Nope", "why": "getitem"})
            elif r < 0.9:
                out.append({"call": "validate", "why": "validate"})
            else:
                out.append({"call": "dumps", "why": "dumps"})
    if kind == "extra_files" and seen and rng.random() < 0.5:
        ref = rng.choice(seen)
        out.append(tree_call(rng, ref, bases, force="match"))            # an export whose base really strips …
        out.append(tree_call(rng, ref, bases, force="shorter"))          # … then another one with a different base
        if rng.random() < 0.5:
            out.append({"call": "dumps", "why": "dumps"})
    return out


def tree_call(rng, ref, bases, force=None):
    path = ref.get("path") or ""
    dirs = path.split("/")[:-1]
    r = rng.random()
    if force == "match" or (force is None and r < 0.45):
        n = rng.randint(1, len(dirs)) if (force == "match" and dirs) else rng.randint(0, len(dirs))
        base = "/".join(dirs[:n]) + rng.choice(["", "/", "//"])
        why = "tree:prefix"
    elif force == "shorter":
        base = "/".join(dirs[:max(0, len(dirs) - 1)])
        why = "tree:shorter"
    elif r < 0.65 and dirs:
        base = "/".join(dirs)[:-1]                                          # only a textual prefix
        why = "tree:textual"
    else:
        base = rng.choice(bases)
        why = "tree:pool"
    return {"call": "dump_for_tree", "variant": ref["variant"] if rng.random() < 0.9 else "Nope",
            "arch": ref["arch"] if rng.random() < 0.9 else "s390x", "basepath": base, "why": why}
