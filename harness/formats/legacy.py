"""
Spec-level down-conversion of current-format content to the older format versions (C05), written from the format
documentation (/repo/doc/*-1.0.rst, *-1.1.rst and the property text) WITHOUT library code:

    fields that did not exist yet are removed, legacy section names are used, compose date/type/respin are derivable
    only from the id, variants are related only by UID prefix, source images / source RPMs are filed under "src".

For each format:  doc(spec)           the current-format document of a (normal-form) description
                  down(doc, version)  the same content as a document of format `version`
                  expect(spec, ...)   the documented result of loading it (the loss stated explicitly)

Versions are compared as pairs of ints (`vt`).  Nothing here imports productmd.
"""
import copy

CI_VERSIONS = ["1.2", "2.0", "1.10", "1.1", "1.0", "0.9", "0.4", "0.3", "0.2", "0.0"]
IMG_VERSIONS = ["1.2", "2.0", "1.1", "1.0", "0.9", "0.3", "0.2", "0.0"]
RPMS_VERSIONS = ["1.2", "1.1", "1.0", "0.4", "0.3", "0.2", "0.0"]
TI_VERSIONS = ["1.2", "2.0", "1.1", "1.0", "0.9", "0.4", "0.3", "0.2", "0.1"]


def gate_versions(repo, modules):
    """every `version_tuple <op> (a, b)` bound of the given productmd modules, with both numeric neighbours (audit C2):
    -> ["a.b", "a.(b-1)", "a.(b+1)", ...]"""
    import ast, os
    out = []
    for m in modules:
        tree = ast.parse(open(os.path.join(repo, "productmd", m + ".py")).read())
        for n in ast.walk(tree):
            if isinstance(n, ast.Compare) and any(isinstance(x, ast.Attribute) and x.attr == "version_tuple" for x in [n.left] + list(n.comparators)):
                for c in [n.left] + list(n.comparators):
                    if isinstance(c, ast.Tuple) and len(c.elts) == 2 and all(isinstance(e, ast.Constant) and isinstance(e.value, int) for e in c.elts):
                        a, b = c.elts[0].value, c.elts[1].value
                        for bb in (b - 1, b, b + 1):
                            if bb >= 0:
                                out.append("%d.%d" % (a, bb))
    return list(dict.fromkeys(out))


def versions_for(repo, fmt):
    """fixed boundary list of the format + the bounds read from the source + two-digit minors (0.10 > 0.3, 1.10 > 1.2)"""
    fixed = {"ci": CI_VERSIONS, "img": IMG_VERSIONS, "rpms": RPMS_VERSIONS, "ti": TI_VERSIONS}[fmt]
    mods = {"ci": ["common", "composeinfo"], "img": ["common", "composeinfo", "images"], "rpms": ["common", "composeinfo", "rpms"],
            "ti": ["treeinfo"]}[fmt]
    extra = gate_versions(repo, mods) + ["0.10", "1.10"]
    if fmt == "ti":
        extra = [v for v in extra if v != "0.0"]          # no-header files have their own generator
    return list(dict.fromkeys(list(fixed) + extra))


def vt(version):
    a, b = version.split(".")
    return (int(a), int(b))


# ================================================================================================ composeinfo
def ci_doc(nspec):
    """the current-format document of a description in normal form (formats.composeinfo.norm): doc/composeinfo-1.1.rst
    plus the `variants` child lists, `release.internal` and the per-variant release of layered products"""
    c = nspec["compose"]
    comp = {"id": c["id"], "type": c["type"], "date": c["date"], "respin": c["respin"]}
    if c["label"]:
        comp["label"] = c["label"]
        comp["final"] = c["final"]

    def rel(r):
        d = {"name": r["name"], "version": r["version"], "short": r["short"], "type": r["type"], "internal": r["internal"]}
        if r["is_layered"]:
            d["is_layered"] = True
        return d
    payload = {"compose": comp, "release": rel(nspec["release"]), "variants": {}}
    if nspec["release"]["is_layered"] and nspec["base_product"] is not None:
        b = nspec["base_product"]
        payload["base_product"] = {"name": b["name"], "version": b["version"], "short": b["short"], "type": b["type"]}

    def put(v):
        e = {"id": v["id"], "uid": v["uid"], "name": v["name"], "type": v["type"], "arches": sorted(v["arches"]),
             "paths": dict((cat, dict(t)) for cat, t in v["paths"].items() if t)}
        if v["release"] is not None:
            e["release"] = rel(v["release"])
        if v["variants"]:
            e["variants"] = sorted(k["id"] for k in v["variants"])
        payload["variants"][v["uid"]] = e
        for k in v["variants"]:
            put(k)
    for v in nspec["variants"]:
        put(v)
    return {"header": {"type": "productmd.composeinfo", "version": "1.2"}, "payload": payload}


def ci_down(doc, version, keep_internal=False, opts=None):
    """opts (audit: every optional key absent / present with its default; decoupled type field; case of the release type):
    "no_final": `final` omitted next to a label when it is false (documented default); "explicit_defaults": `is_layered: false`,
    `variants: []` on leaves (>= 1.0), an empty category dict in `paths`; "upper_type": release type in upper case where the
    field exists (the reader case-folds it); "type_mismatch": a compose `type` that contradicts the id in a < 0.3 document
    (the field must be there, its value is ignored)"""
    opts = opts or {}
    d = copy.deepcopy(doc)
    t = vt(version)
    p = d["payload"]
    if opts.get("no_final") and p["compose"].get("label") and p["compose"].get("final") is False:
        del p["compose"]["final"]
    if opts.get("explicit_defaults"):
        p["release"].setdefault("is_layered", False)
        for v in p["variants"].values():
            if t >= (1, 0):
                v.setdefault("variants", [])
            v["paths"].setdefault("os_tree" if "os_tree" not in v["paths"] else "jigdos", {})
    if opts.get("upper_type") and t >= (1, 1):
        p["release"]["type"] = p["release"]["type"].upper()
    if opts.get("type_mismatch") and t < (0, 3):
        p["compose"]["type"] = "production" if p["compose"]["type"] != "production" else "nightly"
    d["header"] = {"version": version} if t < (1, 1) else {"type": "productmd.composeinfo", "version": version}
    rels = [p["release"]] + [v["release"] for v in p["variants"].values() if "release" in v]
    if t < (1, 2) and not keep_internal:
        for r in rels:
            r.pop("internal", None)
    if t < (1, 1):
        for r in rels:
            r.pop("type", None)
        if "base_product" in p:
            p["base_product"].pop("type", None)
    if t < (1, 0):
        for v in p["variants"].values():
            v.pop("variants", None)
    if t <= (0, 3):
        p["product"] = p.pop("release")
        for v in p["variants"].values():
            if "release" in v:
                v["product"] = v.pop("release")
    if t < (0, 3):
        p["compose"].pop("date")
        p["compose"].pop("respin")
    return d


def ci_expect(nspec, version, keep_internal=False):
    """documented loss: no type -> "ga"; no internal -> False (always for the `product` section)"""
    e = copy.deepcopy(nspec)
    t = vt(version)

    def rels():
        yield e["release"]
        stack = list(e["variants"])
        while stack:
            v = stack.pop()
            if v["release"] is not None:
                yield v["release"]
            stack.extend(v["variants"])
    for r in rels():
        if t < (1, 1):
            r["type"] = "ga"
        if t <= (0, 3) or (t < (1, 2) and not keep_internal):
            r["internal"] = False
    if t < (1, 1) and e["base_product"] is not None:
        e["base_product"]["type"] = "ga"
    return e


def ci_depth(nspec):
    def d(v):
        return 1 + max([d(k) for k in v["variants"]] or [0])
    return max([d(v) for v in nspec["variants"]] or [0])


def ci_prefix_ambiguous(nspec):
    """a top-level UID `a-b` next to a variant with UID `a`: by prefix alone it reads as a child of `a`
    (the legacy format cannot say otherwise)"""
    uids = set()

    def walk(vs):
        for v in vs:
            uids.add(v["uid"])
            walk(v["variants"])
    walk(nspec["variants"])
    return any("-" in v["uid"] and v["uid"].rsplit("-", 1)[0] in uids for v in nspec["variants"])


# ================================================================================================ images
def img_down(doc, version, src_cells=True, opts=None):
    """doc: current-format images document (formats.images.doc_of_spec).  <= 1.1: an image whose `arch` attribute is
    "src" and which is filed under every binary arch of its variant is filed once, under "src"; <= 1.0: no subvariant,
    no header type; < 0.3: no compose date/respin"""
    d = copy.deepcopy(doc)
    t = vt(version)
    d["header"] = {"version": version} if t < (1, 1) else {"type": "productmd.images", "version": version}
    if t <= (1, 1) and src_cells:
        for variant, arches in d["payload"]["images"].items():
            if not arches or "src" in arches:
                continue
            cells = list(arches.values())
            keyf = lambda r: repr(sorted(r.items(), key=lambda kv: kv[0]))
            common = [r for r in cells[0] if r.get("arch") == "src" and all(any(keyf(r) == keyf(x) for x in c) for c in cells)]
            if common and all(len(c) > 0 for c in cells):
                for a in list(arches):
                    arches[a] = [r for r in arches[a] if all(keyf(r) != keyf(x) for x in common)]
                arches["src"] = common
    if t <= (1, 0):
        for arches in d["payload"]["images"].values():
            for cell in arches.values():
                for r in cell:
                    r.pop("subvariant", None)
    opts = opts or {}
    if t < (1, 0):
        # `format` is documented from 1.0 on (doc/images-1.0.rst); before, every image was an ISO: the key is absent, default "iso"
        for arches in d["payload"]["images"].values():
            for cell in arches.values():
                for r in cell:
                    if r.get("format") == "iso":
                        del r["format"]
    if opts.get("empty_cell"):
        for arches in d["payload"]["images"].values():
            arches.setdefault("s390", [])                 # an arch without images: nothing to load
            break
    comp = d["payload"]["compose"]
    if opts.get("no_final") and comp.get("label") and comp.get("final") is False:
        del comp["final"]
    if opts.get("type_mismatch") and t < (0, 3):
        comp["type"] = "production" if comp["type"] != "production" else "nightly"
    if t < (0, 3):
        d["payload"]["compose"].pop("date")
        d["payload"]["compose"].pop("respin")
    return d


# ================================================================================================ rpms
def rpms_down(doc, version, upper=False, suffix=False, opts=None):
    """doc: current-format rpms document.  <= 0.3: section `manifest`, entry key `type` with "package" for binary RPMs
    instead of `category`, source RPMs filed once per variant under arch "src" (srpm nevra -> {path, sigkey}) and not
    repeated next to their binaries; < 1.1 no header type; < 0.3 no compose date/respin"""
    d = copy.deepcopy(doc)
    t = vt(version)
    d["header"] = {"version": version} if t < (1, 1) else {"type": "productmd.rpms", "version": version}
    if t <= (0, 3):
        rpms = d["payload"].pop("rpms")
        man = {}
        for variant, arches in rpms.items():
            for arch, srpms in arches.items():
                for srpm, pkgs in srpms.items():
                    for nevra, data in pkgs.items():
                        sk = data["sigkey"].upper() if (upper and data["sigkey"]) else data["sigkey"]     # keys were not yet case-folded
                        if data["category"] == "source":
                            man.setdefault(variant, {}).setdefault("src", {})[srpm] = {"path": data["path"], "sigkey": sk}
                        else:
                            man.setdefault(variant, {}).setdefault(arch, {}).setdefault(srpm, {})[nevra + (".rpm" if suffix else "")] = {
                                "path": data["path"], "sigkey": sk,
                                "type": "package" if data["category"] == "binary" else data["category"]}
        d["payload"]["manifest"] = man
    opts = opts or {}
    comp = d["payload"]["compose"]
    if opts.get("no_final") and comp.get("label") and comp.get("final") is False:
        del comp["final"]
    if opts.get("type_mismatch") and t < (0, 3):
        comp["type"] = "production" if comp["type"] != "production" else "nightly"
    if t < (0, 3):
        d["payload"]["compose"].pop("date")
        d["payload"]["compose"].pop("respin")
    return d


# ================================================================================================ treeinfo
PATH_FIELDS = ["packages", "repository", "source_packages", "source_repository", "debug_packages", "debug_repository", "identity"]


BOOL_TRUE = ["true", "True", "1", "yes", "on", "TRUE"]
BOOL_FALSE = ["false", "False", "0", "no", "off"]
BARE_LEN = {"md5": 32, "sha1": 40, "sha256": 64}


def ti_sections(spec, version, child_key="addons", opts=None):
    """sections of a tree description as a file of format `version` (doc/treeinfo-1.0.rst, -1.1.rst; <= 0.3: `[product]`
    instead of `[release]`, children listed under `addons` or `variants`, a `src` tree keeps its source paths in
    `packages` / `repository`).  [general] mirrors the authoritative sections (C17)."""
    t = vt(version)
    d = {}
    d["header"] = {"version": version} if t < (1, 1) else {"type": "productmd.treeinfo", "version": version}
    r = spec["release"]
    rel = {"name": r["name"], "short": r["short"], "version": r["version"]}
    opts = opts or {}
    k = opts.get("bool_spelling", 0)
    if spec["is_layered"]:
        rel["is_layered"] = BOOL_TRUE[k % len(BOOL_TRUE)]             # every spelling getboolean accepts
        b = spec["base_product"]
        d["base_product"] = {"name": b["name"], "short": b["short"], "version": b["version"]}
    elif opts.get("explicit_defaults"):
        rel["is_layered"] = BOOL_FALSE[k % len(BOOL_FALSE)]
    if opts.get("no_short") and t > (0, 3) and r["short"] == r["name"]:
        del rel["short"]                                              # optional from 0.4 on: defaults to the name
    d["product" if t <= (0, 3) else "release"] = rel
    tr = spec["tree"]
    ts = tr["build_timestamp"]
    d["tree"] = {"arch": tr["arch"], "build_timestamp": str(float(ts["$float"]) if isinstance(ts, dict) else ts),
                 "platforms": ",".join(sorted(set(tr["platforms"]) | {tr["arch"]})),
                 "variants": ",".join(sorted(v["uid"] for v in spec["variants"]))}

    def put(v, parent):
        sec = {"id": v["id"], "uid": v["uid"], "name": v["name"], "type": v["type"]}
        paths = dict(map(tuple, v["paths"]))
        if t <= (0, 3) and tr["arch"] == "src":
            paths = dict(paths)
            if "source_packages" in paths:
                paths["packages"] = paths.pop("source_packages")
            if "source_repository" in paths:
                paths["repository"] = paths.pop("source_repository")
        sec.update(paths)
        if parent is not None and t > (0, 3):
            sec["parent"] = parent["uid"]
        if v["variants"]:
            sec[child_key if t <= (0, 3) else "addons"] = ",".join(sorted(c["uid"] for c in v["variants"]))
        d[("addon-" if v["type"] == "addon" else "variant-") + v["uid"]] = sec
        for c in v["variants"]:
            put(c, v)
    for v in spec["variants"]:
        put(v, None)
    if spec["checksums"]:
        # a digest of the length of its algorithm may be written bare (the older spelling): type implied by the length
        d["checksums"] = dict((p, val if (opts.get("bare_checksums") and BARE_LEN.get(ty) == len(val)) else "%s:%s" % (ty, val))
                              for p, ty, val in spec["checksums"])
    for plat, imgs in spec["images"]:
        d["images-" + plat] = dict((k, p) for k, p in imgs)
    st = spec["stage2"]
    if st["mainimage"] or st["instimage"]:
        d["stage2"] = dict((k, st[k]) for k in ("mainimage", "instimage") if st[k])
    m = spec["media"]
    if m["discnum"] or m["totaldiscs"]:
        # the file holds integers (doc/treeinfo-1.0.rst: `discnum = <int>`): a bool in the API object (bool <: int) is written as 1 / 0
        d["media"] = {"discnum": str(int(m["discnum"])), "totaldiscs": str(int(m["totaldiscs"]))}
    return d


def ti_chain_ambiguous(spec, version):
    """<= 0.3 files: a path field of variant X is looked up in `variant-<uid>`, `variant-<id>`, `addon-<uid>`, `addon-<id>` (the old
    format allowed sections named by the bare id).  Content in which one of these names is the section of ANOTHER variant (a child
    whose id is some other variant's UID) cannot be expressed in that format: X would inherit the other variant's paths."""
    if vt(version) > (0, 3):
        return False
    allv = []

    def walk(vs):
        for v in vs:
            allv.append(v)
            walk(v["variants"])
    walk(spec["variants"])
    own = dict((id(v), ("addon-" if v["type"] == "addon" else "variant-") + v["uid"]) for v in allv)
    secs = set(own.values())
    for v in allv:
        cand = set(["variant-" + v["uid"], "variant-" + v["id"], "addon-" + v["uid"], "addon-" + v["id"]]) - set([own[id(v)]])
        if cand & secs:
            return True
    return False


def ini_text(sections):
    out = []
    for name in sorted(sections):
        out.append("[%s]" % name)
        for k in sorted(sections[name]):
            out.append("%s = %s" % (k, sections[name][k]))
        out.append("")
    return "\n".join(out) + "\n"


def ti_src_representable(spec, version):
    """a `src` tree of format <= 0.3 has no place for binary package paths: content with `packages` / `repository` on a src
    tree cannot be down-converted"""
    if vt(version) > (0, 3) or spec["tree"]["arch"] != "src":
        return True

    def ok(v):
        names = [f for f, _ in v["paths"]]
        return "packages" not in names and "repository" not in names and all(ok(c) for c in v["variants"])
    return all(ok(v) for v in spec["variants"])
