#!/bin/bash
# Offline setup after a fresh restore: regenerate the generated Lean files from /repo's working tree,
# build the whole Lean library (all proofs) and the compiled model driver.
set -e
cd "$(dirname "$0")"
export PRODUCTMD_REPO="${PRODUCTMD_REPO:-/repo}"
/venv/bin/python tools/translate.py
cd lean
set -o pipefail
lake build ProductMD pmdriver 2>&1 | tail -5
test -x .lake/build/bin/pmdriver
echo "setup ok"
